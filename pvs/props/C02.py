"""C02 — wall-clock construction is normalised by the documented DST rules."""
from __future__ import annotations

import ast

from .. import cfg, core
from ..core import dotted, nun, pmod, un
from ..rules import recon

EXPLANATION = (
    "Decided statically: (1) every public wall-clock entry point (datetime(), local(), set/on/at/replace, "
    "parse, from_format, Timezone.datetime, FixedTimezone.datetime) funnels into DateTime.create -> tz.convert, "
    "forwarding fold and raise_on_unknown_times at every hop; (2) the fold defaults are 1 ('later occurrence "
    "by default'); (3) Timezone.convert's naive branch, evaluated abstractly over the 3 orderings of the two "
    "utcoffset queries x fold {0,1} x raise {F,T} (12 cases), raises NonExistingTime exactly in a gap and "
    "AmbiguousTime exactly in an overlap when asked, shifts a skipped time forward by the gap for fold=1 and "
    "backward for fold=0, never shifts otherwise, and always returns dt.replace(tzinfo=self); the two queries "
    "are made with fold=0 and fold=1 whatever the input's fold; (4) the reconstruction in create() and in "
    "FixedTimezone.convert copies every field. NOT decided: gap lengths / which wall times are skipped per "
    "zone, the UTC round trip (zone data at run time)."
    ' Also: inside the conversion functions a read of `.seconds` of a timedelta is paired with `.days` (a gap or offset difference is never taken modulo one day).'
)

F7 = recon.DATE_F + recon.TIME_F


def single_return(ctx, m: core.Mod, qual: str, rule: str) -> ast.expr | None:
    fn = m.func(qual)
    r = core.returns(fn)
    if len(r) != 1 or r[0].value is None:
        ctx.unverified(rule, qual, f"{len(r)} return statements (expected one)", m.loc(fn))
        return None
    return core.strip_casts(r[0].value)  # type: ignore[return-value]


def expect_call(ctx, rule: str, construct: str, m: core.Mod, expr: ast.expr | None, callee: tuple[str, ...],
                callee_params: list[str], want: dict[str, tuple[str, ...]]) -> None:
    """expr must be a call of `callee` whose bound arguments equal `want` (param -> accepted sources)."""
    if expr is None:
        return
    if not isinstance(expr, ast.Call) or nun(expr.func) not in callee:
        ctx.ob(rule, construct, False, f"returns `{un(expr)[:120]}`; must go through {callee[0]}(...)", m.loc(expr))
        return
    try:
        b = core.bind(expr, callee_params)
    except core.Unsupported as e:
        ctx.unverified(rule, construct, str(e), m.loc(expr))
        return
    for p, accepted in want.items():
        got = nun(b[p]) if p in b else "<not passed>"
        ctx.ob(rule, f"{construct}/{p}", got in accepted,
               f"{callee[0]}({p}=...) receives `{got}`; expected {' or '.join(accepted)}", m.loc(expr))


def _create_tabulate(ctx, dm, create) -> bool | None:
    """CREATE.tabulated: DateTime.create run by the checker's interpreter; the zone is a stub whose convert() records what it is given and
    answers with a value that differs from it in every field, in the fold and in the tzinfo object.  Expected: with a zone, convert()
    receives the naive wall time of the arguments with the fold given (default 1) and the raise_on_unknown_times flag (default False),
    and the instance is built from all seven fields, the tzinfo and the fold of its answer; without a zone (tz=None) the instance is
    built from the arguments, naive, with the fold given."""
    import datetime as _dt
    from ..rules import minieval
    from ..rules.minieval import ClassStub, Stub
    bad, n = [], 0
    meths = dm.methods_mro("DateTime")
    funcs = {st.name: st for st in dm.top() if isinstance(st, ast.FunctionDef)}
    answer_tz = _dt.timezone(_dt.timedelta(hours=5, minutes=30), "ANSWER")
    try:
        for args in ((2021, 3, 28, 2, 30, 15, 123456), (2020, 2, 29), (1999, 12, 31, 23, 59, 59, 999999)):
            for tzarg in ("Europe/Paris", None, "default"):
                for fold in (None, 0, 1):
                    for flag in (None, True):
                        seen, built = [], []

                        def convert(native, *a, **k):
                            seen.append((native, a, k))
                            return _dt.datetime(2001, 2, 3, 4, 5, 6, 7, tzinfo=answer_tz, fold=1 - native.fold)
                        zone = Stub(_zone=True, convert=convert)
                        asked = []
                        cls = ClassStub(_new=lambda *a, **k: (built.append((a, k)), Stub(_built=True))[1], _isa=lambda v: False, _methods=lambda: meths)
                        glob = {**minieval.module_consts(dm), "UTC": Stub(_utc=True), "datetime": Stub(datetime=_dt.datetime, timedelta=_dt.timedelta, date=_dt.date, tzinfo=_dt.tzinfo),
                                "pendulum": Stub(_safe_timezone=lambda z, *a, **k: (asked.append(z), zone)[1]), "ValueError": ValueError}
                        kw = {}
                        if tzarg != "default":
                            kw["tz"] = tzarg
                        if fold is not None:
                            kw["fold"] = fold
                        if flag is not None:
                            kw["raise_on_unknown_times"] = flag
                        n += 1
                        label = f"create({', '.join(map(str, args))}{''.join(f', {k}={v!r}' for k, v in kw.items())})"
                        got = minieval.call(create, [cls, *args], kw, {**funcs, "$globals": glob})
                        if not getattr(got, "_built", False) or len(built) != 1:
                            raise core.Unsupported(f"{label} does not return one cls(...) call")
                        names = ["year", "month", "day", "hour", "minute", "second", "microsecond", "tzinfo"]
                        f = dict(zip(names, built[0][0]))
                        f.update(built[0][1])
                        f = {k: f.get(k, 0 if k not in ("tzinfo",) else None) for k in names + ["fold"]}
                        full = tuple(args) + (0,) * (7 - len(args))
                        want_fold = 1 if fold is None else fold
                        if tzarg is None:
                            want = dict(zip(names, full + (None,)), fold=want_fold)
                            if seen or asked:
                                bad.append(f"{label}: a zone is consulted although tz=None")
                        else:
                            want = dict(zip(names, (2001, 2, 3, 4, 5, 6, 7, answer_tz)), fold=1 - want_fold)
                            if len(seen) != 1:
                                bad.append(f"{label}: convert() is called {len(seen)} times")
                                continue
                            nat, a_, k_ = seen[0]
                            fl = a_[0] if a_ else k_.get("raise_on_unknown_times", False)
                            if not (isinstance(nat, _dt.datetime) and nat.tzinfo is None and (nat.year, nat.month, nat.day, nat.hour, nat.minute, nat.second, nat.microsecond) == full):
                                bad.append(f"{label}: convert() receives {nat!r}; must be the naive wall time of the arguments")
                            elif nat.fold != want_fold:
                                bad.append(f"{label}: convert() receives fold={nat.fold} (the fold asked for is {want_fold})")
                            elif bool(fl) != bool(flag):
                                bad.append(f"{label}: convert() receives raise_on_unknown_times={fl!r}")
                            elif len(asked) != 1 or (tzarg == "default" and not getattr(asked[0], "_utc", False)) or (tzarg != "default" and asked[0] != tzarg):
                                bad.append(f"{label}: the zone is resolved from {asked!r}")
                        if f != want:
                            diff = {k: f[k] for k in f if f[k] != want[k]}
                            bad.append(f"{label}: the instance is built with {diff} (expected { {k: want[k] for k in diff} })")
    except (core.Unsupported, KeyError, TypeError, AttributeError, ValueError, IndexError, RecursionError, minieval.Raised) as e:
        ctx.unverified("CREATE.tabulated", "DateTime.create", f"outside the checker's interpreter: {type(e).__name__}: {str(e)[:160]}", dm.loc(create))
        return None
    ctx.ob("CREATE.tabulated", "DateTime.create", not bad, f"{n} calls: " + (f"wrong: {bad[:3]}" if bad else
           "the naive wall time, the fold and the flag go to the zone's convert(); the instance takes every field, the tzinfo and the fold of its answer"), dm.loc(create))
    if not bad:
        ctx.established(("FUNNEL.create", "RECON"), "DateTime.create", "CREATE.tabulated")
    return not bad


def _setreplace_tabulate(ctx, dm, cp) -> bool | None:
    """REPLACE.tabulated: DateTime.replace and DateTime.set run by the checker's interpreter on instance stubs - in a pendulum zone (both
    folds), carrying a tzinfo of the standard library (for which `.tz` / `.timezone` answer None), naive - with no field, one field, all
    fields, an explicit tzinfo / tz, tzinfo=None, an explicit fold; `create()` records what it is handed.  Expected: the seven fields given
    or else the instance's own; replace(): the tzinfo given or else the instance's own *tzinfo* (whatever its class; handed on as it is or
    through _safe_timezone), the fold given or else the instance's own; set(): the tz given or else the instance's zone, the instance's fold."""
    from ..rules import minieval
    from ..rules.minieval import ClassStub, Obj, Stub
    meths = dm.methods_mro("DateTime")
    props = {k for k, f in meths.items() if any(core.dotted(d) == "property" for d in f.decorator_list)}
    funcs = {st.name: st for st in dm.top() if isinstance(st, ast.FunctionDef)}
    Z, F, OTHER = Stub(_zone="pendulum", name="Zone/Own"), Stub(_zone="foreign"), Stub(_zone="pendulum", name="Zone/Other")
    own = dict(year=2021, month=3, day=28, hour=2, minute=30, second=15, microsecond=123456)
    allf = dict(year=1999, month=12, day=31, hour=23, minute=59, second=58, microsecond=7)
    ok_all = True
    for meth in ("replace", "set"):
        if meth not in meths:
            continue
        bad, n = [], 0
        tzkw = "tzinfo" if meth == "replace" else "tz"
        # (set(tz=0): zero hours from UTC - an argument that is false)
        calls = [{}, {"minute": 59}, dict(allf), {tzkw: OTHER}, {"year": 2000, tzkw: OTHER}] + ([{"tz": 0}, {"tz": 0.0, "hour": 5}] if meth == "set" else []) + ([{"tzinfo": None}, {"fold": 0}, {"fold": 1}, {"second": 0, "fold": 0}] if meth == "replace" else [])
        try:
            for label_i, tzinfo, fold in (("in a pendulum zone, fold=0", Z, 0), ("in a pendulum zone, fold=1", Z, 1), ("with a standard-library tzinfo", F, 1), ("naive", None, 0)):
                for kw in calls:
                    made = []

                    def create(*a, **k):
                        b = dict(zip(cp, a))
                        b.update(k)
                        made.append(b)
                        return Stub(_created=len(made))
                    cls = ClassStub(_new=None, _isa=lambda v: False, create=create, _methods=lambda: meths)
                    glob = {**minieval.module_consts(dm), "pendulum": Stub(_safe_timezone=lambda z, *a, **k: Stub(_safe_of=z)), "UTC": Stub(_zone="pendulum", name="UTC"),
                            "Timezone": ClassStub(_new=None, _isa=lambda v: getattr(v, "_zone", None) == "pendulum"), "FixedTimezone": ClassStub(_new=None, _isa=lambda v: False),
                            "ValueError": ValueError, "TypeError": TypeError}
                    me = Obj(_methods=meths, _props=props, _natives={}, _ctor=cls, tzinfo=tzinfo, fold=fold, **own)
                    got = minieval.call(meths[meth], [me], dict(kw), {**funcs, "$globals": glob})
                    n += 1
                    label = f"<{label_i}>.{meth}({', '.join(f'{k}={getattr(v, 'name', None) or getattr(v, '_zone', v)}' for k, v in kw.items())})"
                    if len(made) != 1 or getattr(got, "_created", None) != 1:
                        raise core.Unsupported(f"{label} does not return one create(...) call")
                    b = made[0]
                    want = {f: kw.get(f, own[f]) for f in own}
                    gotf = {f: b.get(f) for f in own}
                    if gotf != want:
                        bad.append(f"{label}: create() receives the fields {gotf} (expected {want})")
                        continue
                    want_fold = kw.get("fold", fold)
                    if b.get("fold", "<default>") != want_fold:
                        bad.append(f"{label}: create() receives fold={b.get('fold', '<not passed: the default>')} (expected {want_fold})")
                        continue
                    tzv = b.get("tz", "<not passed: the UTC default>")
                    tzv = getattr(tzv, "_safe_of", tzv)
                    if tzkw in kw:
                        accepted = [kw[tzkw]]
                    elif meth == "replace":
                        accepted = [tzinfo]
                    else:
                        accepted = [tzinfo, tzinfo if getattr(tzinfo, "_zone", None) == "pendulum" else None]
                    if not any(tzv is a or (isinstance(a, (int, float)) and not isinstance(a, bool) and type(tzv) is type(a) and tzv == a) for a in accepted):
                        show = lambda v: "None" if v is None else v if isinstance(v, str) else repr(v) if isinstance(v, (int, float)) else getattr(v, "name", None) or f"the {getattr(v, '_zone', '?')} tzinfo"     # noqa: E731
                        bad.append(f"{label}: create() receives tz={show(tzv)} (expected {' or '.join(show(a) for a in accepted)})")
        except (core.Unsupported, KeyError, TypeError, AttributeError, ValueError, IndexError, RecursionError, minieval.Raised) as e:
            ctx.unverified("REPLACE.tabulated", f"DateTime.{meth}", f"outside the checker's interpreter: {type(e).__name__}: {str(e)[:160]}", dm.loc(meths[meth]))
            ok_all = None
            continue
        ctx.ob("REPLACE.tabulated", f"DateTime.{meth}", not bad, f"{n} calls: " + (f"wrong: {bad[:3]}" if bad else
               "create() receives the fields given or the instance's own, its tzinfo / zone unless one is given, its fold unless one is given"), dm.loc(meths[meth]))
        if not bad:
            ctx.established(("FUNNEL.set", "FUNNEL.replace", "FUNNEL.fold", "REPLACE.keep"), f"DateTime.{meth}", "REPLACE.tabulated")
        else:
            ok_all = False
    return ok_all


def _funnel(ctx) -> None:
    im, dm, tzm = pmod("__init__"), pmod("datetime"), pmod("tz.timezone")
    create = dm.func("DateTime.create")
    _create_tabulate(ctx, dm, create)
    _setreplace_tabulate(ctx, dm, core.params(create))
    cp = core.params(create)
    ctx.ob("FUNNEL.signature", "DateTime.create", cp[:9] == F7 + ["tz", "fold"] and "raise_on_unknown_times" in cp,
           f"create parameters are {cp}", dm.loc(create))

    # pendulum.datetime -> DateTime.create, everything forwarded
    e = single_return(ctx, im, "datetime", "FUNNEL.forward")
    expect_call(ctx, "FUNNEL.forward", "pendulum.datetime", im, e, ("DateTime.create",), cp,
                {p: (p,) for p in F7 + ["tz", "fold", "raise_on_unknown_times"]})
    # local()
    e = single_return(ctx, im, "local", "FUNNEL.forward")
    want = {p: (p,) for p in F7}
    want["tz"] = ("local_timezone()",)
    expect_call(ctx, "FUNNEL.forward", "pendulum.local", im, e, ("datetime", "DateTime.create"),
                core.params(im.func("datetime")), want)
    # set()
    setfn = dm.func("DateTime.set")
    for p in cfg.paths(setfn):
        ex = p.exit()
        if ex[1] != "return":
            continue
        ret = core.strip_casts(ex[2].value)
        if not (isinstance(ret, ast.Call) and nun(ret.func) in ("self.__class__.create", "self.create", "DateTime.create")):
            ctx.ob("FUNNEL.set", "DateTime.set/return", False,
                   f"returns `{un(ret)[:100]}`; must re-create through create()", dm.loc(ex[2]))
            continue
        try:
            b = core.bind(ret, cp)
        except core.Unsupported as e_:
            ctx.unverified("FUNNEL.set", "DateTime.set/return", str(e_), dm.loc(ex[2]))
            continue
        for f in F7:
            arg = b.get(f)
            got = nun(cfg.subst_path(p, arg, set())) if arg is not None else "<not passed>"
            none = p.holds(f"{f} is None")
            want_s = f"self.{f}" if none is True else f
            ctx.ob("FUNNEL.set", f"DateTime.set/{f}", got == want_s,
                   f"on the path where `{f} is None` is {none}, create({f}=...) receives `{got}`; expected `{want_s}`",
                   dm.loc(ex[2]), nontrivial=none is True)
        got = nun(cfg.subst_path(p, b["tz"], set())) if "tz" in b else "<not passed>"
        none = p.holds("tz is None")
        ctx.ob("FUNNEL.set", "DateTime.set/tz", got == ("self.tz" if none else "tz") or got == ("self.tzinfo" if none else "tz"),
               f"tz={got} (tz is None: {none})", dm.loc(ex[2]), nontrivial=False)
        got = nun(b["fold"]) if "fold" in b else "<not passed>"
        ctx.ob("FUNNEL.fold", "DateTime.set/fold", got == "self.fold" or got.startswith("self.fold") or "fold" in got,
               f"set() passes fold={got}; the instance's fold must reach create()", dm.loc(ex[2]))
    # on / at
    e = single_return(ctx, dm, "DateTime.on", "FUNNEL.forward")
    expect_call(ctx, "FUNNEL.forward", "DateTime.on", dm, e, ("self.set",), core.params(setfn),
                {"year": ("int(year)", "year"), "month": ("int(month)", "month"), "day": ("int(day)", "day")})
    e = single_return(ctx, dm, "DateTime.at", "FUNNEL.forward")
    expect_call(ctx, "FUNNEL.forward", "DateTime.at", dm, e, ("self.set",), core.params(setfn),
                {f: (f,) for f in recon.TIME_F})
    # replace()
    rep = dm.func("DateTime.replace")
    for p in cfg.paths(rep):
        ex = p.exit()
        if ex[1] != "return":
            continue
        ret = core.strip_casts(ex[2].value)
        if not (isinstance(ret, ast.Call) and nun(ret.func) in ("self.__class__.create", "self.create", "DateTime.create")):
            ctx.ob("FUNNEL.replace", "DateTime.replace/return", False,
                   f"returns `{un(ret)[:100]}`; must re-create through create()", dm.loc(ex[2]))
            continue
        try:
            b = core.bind(ret, cp)
        except core.Unsupported as e_:
            ctx.unverified("FUNNEL.replace", "DateTime.replace/return", str(e_), dm.loc(ex[2]))
            continue
        for f in F7 + ["fold"]:
            arg = b.get(f)
            got = nun(cfg.subst_path(p, arg, set())) if arg is not None else "<not passed>"
            none = p.holds(f"{f} is None")
            want_s = f"self.{f}" if none is True else f
            ctx.ob("FUNNEL.replace" if f != "fold" else "FUNNEL.fold", f"DateTime.replace/{f}", got == want_s,
                   f"on the path where `{f} is None` is {none}, create({f}=...) receives `{got}`; expected `{want_s}`",
                   dm.loc(ex[2]), nontrivial=none is True or f == "fold")
        tzv = nun(cfg.subst_path(p, b["tz"], set())) if "tz" in b else "<not passed>"
        keep = p.holds("tzinfo is True")
        base = "self.tzinfo" if keep else "tzinfo"
        okset = {base, f"pendulum._safe_timezone({base})"}
        ctx.ob("FUNNEL.replace", "DateTime.replace/tz", tzv in okset, f"tz={tzv}; expected one of {sorted(okset)}",
               dm.loc(ex[2]), nontrivial=False)
    # Timezone.datetime / FixedTimezone.datetime
    for cls in ("Timezone", "FixedTimezone"):
        e = single_return(ctx, tzm, f"{cls}.datetime", "FUNNEL.tzdatetime")
        if e is None:
            continue
        ok = isinstance(e, ast.Call) and nun(e.func) == "self.convert" and len(e.args) == 1
        inner = e.args[0] if ok else None
        ok = ok and isinstance(inner, ast.Call) and nun(inner.func) in ("_datetime.datetime", "datetime.datetime")
        if not ok:
            ctx.ob("FUNNEL.tzdatetime", f"{cls}.datetime", False,
                   f"returns `{un(e)[:100]}`; must be self.convert(<naive datetime of the arguments>)", tzm.loc(e))
            continue
        b = core.bind(inner, recon.PARAMS["DT"])
        for f in F7:
            ctx.ob("FUNNEL.tzdatetime", f"{cls}.datetime/{f}", f in b and nun(b[f]) == f,
                   f"{f}={nun(b[f]) if f in b else '<not passed>'}", tzm.loc(e), nontrivial=False)
        ctx.ob("FUNNEL.fold-default", f"{cls}.datetime/fold", "fold" in b and core.is_const(b["fold"], 1),
               f"fold={nun(b['fold']) if 'fold' in b else '<default 0>'}; the documented default is the later occurrence (fold=1)",
               tzm.loc(e))
        ctx.ob("FUNNEL.tzdatetime", f"{cls}.datetime/tzinfo", "tzinfo" not in b,
               "the value handed to convert() must be naive", tzm.loc(e), nontrivial=False)
    from . import C13
    C13.parse_results_tabulate(ctx)
    # parser._parse
    pm = pmod("parser")
    pf = pm.func("_parse")
    found = False
    for c in core.calls(pf):
        if nun(c.func) == "pendulum.datetime":
            found = True
            b = core.bind(c, core.params(im.func("datetime")))
            tzv = nun(b["tz"]) if "tz" in b else "<not passed>"
            ctx.ob("FUNNEL.parse", "parser._parse/tz", tzv in ("parsed.tzinfo or options.get('tz', UTC)",),
                   f"tz={tzv}; must be the parsed offset, else the tz option (default UTC)", pm.loc(c))
    ctx.ob("FUNNEL.parse", "parser._parse/create", found, "parsed datetimes must be built by pendulum.datetime(...)", pm.loc(pf))
    # from_format
    ff = im.func("from_format")
    e = None
    r = core.returns(ff)
    if len(r) == 1:
        e = r[0].value
    ok = e is not None and nun(e) in ("datetime(**parts)", "DateTime.create(**parts)")
    ctx.ob("FUNNEL.from_format", "from_format/create", ok, f"returns `{nun(e)}`; must be datetime(**parts)", im.loc(ff))
    fills = [st for st in core.walk_fn(ff) if isinstance(st, ast.If) and nun(st.test) == "parts['tz'] is None"
             and any(nun(s) == "parts['tz'] = tz" for s in st.body)]
    ctx.ob("FUNNEL.from_format", "from_format/tz-fill", bool(fills),
           "a format without offset must fall back to the tz argument (parts['tz'] = tz when None)", im.loc(ff))

    # create(): naive value, convert with raise flag, RECON
    for p in cfg.paths(create):
        ex = p.exit()
        if ex[1] != "return":
            continue
        ret = core.strip_casts(ex[2].value)
        srcs = {un(a.value) for a in getattr(ret, "args", []) if isinstance(a, ast.Attribute)}
        if len(srcs) != 1:
            ctx.unverified("FUNNEL.create", "DateTime.create/return", f"return value `{un(ret)[:80]}`", dm.loc(ex[2]))
            continue
        v = nun(cfg.subst_path(p, ast.Name(id=srcs.pop(), ctx=ast.Load()), set()))
        naive = "datetime.datetime(" + ", ".join(F7) + ", fold=fold)"
        has_tz = p.holds("tz is None")
        if has_tz is False:
            want_v = (f"pendulum._safe_timezone(tz).convert({naive}, raise_on_unknown_times=raise_on_unknown_times)",)
        else:
            want_v = (naive,)
        ctx.ob("FUNNEL.create", f"DateTime.create/{'aware' if has_tz is False else 'naive'}-path", v in want_v,
               f"fields come from `{v[:170]}`; expected `{want_v[0][:170]}`", dm.loc(ex[2]))


def _defaults(ctx) -> None:
    im, dm = pmod("__init__"), pmod("datetime")
    for m, q in ((dm, "DateTime.create"), (im, "datetime"), (im, "naive")):
        d = core.defaults(m.func(q))
        ctx.ob("DEFAULTS.fold", f"{q}/fold", "fold" in d and core.is_const(d["fold"], 1),
               f"default fold is `{nun(d.get('fold'))}`; the documented default denotes the later occurrence (1)",
               m.loc(m.func(q)))
        if "raise_on_unknown_times" in core.params(m.func(q)):
            ctx.ob("DEFAULTS.raise", f"{q}/raise_on_unknown_times",
                   core.is_const(d.get("raise_on_unknown_times"), False),
                   f"default raise_on_unknown_times is `{nun(d.get('raise_on_unknown_times'))}`", m.loc(m.func(q)))
    tzm = pmod("tz.timezone")
    for c in ("Timezone", "FixedTimezone"):
        d = core.defaults(tzm.func(f"{c}.convert"))
        ctx.ob("DEFAULTS.raise", f"{c}.convert/raise_on_unknown_times", core.is_const(d.get("raise_on_unknown_times"), False),
               f"default `{nun(d.get('raise_on_unknown_times'))}`", tzm.loc(tzm.func(f"{c}.convert")))
    em = pmod("tz.exceptions")
    for c in ("NonExistingTime", "AmbiguousTime"):
        node = em.cls(c)
        chain, todo = [], [c]
        while todo:         # every ancestor defined in the module (a shared private base class is a spelling of the same hierarchy)
            k = todo.pop(0)
            for b in (un(b) for b in em.cls(k).bases):
                if b not in chain:
                    chain.append(b)
                    if em.has_cls(b):
                        todo.append(b)
        other = "AmbiguousTime" if c == "NonExistingTime" else "NonExistingTime"
        ok = "TimezoneError" in chain and "ValueError" in chain and other not in chain
        ctx.ob("EXC.hierarchy", c, ok, f"{c} ancestors {chain}; must derive from ValueError via TimezoneError (and not from {other})", em.loc(node))


# ---------------------------------------------------------------------------
# ABSCASE on Timezone.convert


class _Abs:
    def __init__(self, dtp: str, fold: int, raise_: bool, order: str, before: str, after: str):
        self.dtp, self.fold, self.raise_, self.order = dtp, fold, raise_, order
        self.before, self.after = before, after

    def atom(self, src: str) -> bool:
        n = ast.parse(src, mode="eval").body
        return self.ev(n)

    def ev(self, n: ast.expr) -> bool:
        if isinstance(n, ast.Name) and n.id == "raise_on_unknown_times":
            return self.raise_
        if isinstance(n, ast.Attribute) and un(n) == f"{self.dtp}.fold":
            return bool(self.fold)
        if isinstance(n, ast.Compare) and len(n.ops) == 1:
            l, r = un(n.left), un(n.comparators[0])
            if l == f"{self.dtp}.tzinfo" and r == "None" and isinstance(n.ops[0], ast.Is):
                return True
            if l == f"{self.dtp}.fold" and isinstance(n.comparators[0], ast.Constant):
                return _cmp(self.fold, n.comparators[0].value, n.ops[0])
            if {l, r} == {self.before, self.after}:
                # order describes after ? before
                val = {"gt": 1, "eq": 0, "lt": -1}[self.order]
                a, b = (val, 0) if l == self.after else (0, val)
                return _cmp(a, b, n.ops[0])
        raise core.Unsupported(f"branch condition `{un(n)}` is outside the abstract domain")


def _cmp(a, b, op) -> bool:
    return {ast.Gt: a > b, ast.GtE: a >= b, ast.Lt: a < b, ast.LtE: a <= b, ast.Eq: a == b, ast.NotEq: a != b,
            ast.Is: a == b, ast.IsNot: a != b}[type(op)]


def _query_fold(expr: ast.expr, dtp: str, fold: int) -> int:
    """Which fold does `expr` (an utcoffset query, possibly an IfExp on dt.fold) ask about when dt.fold == fold?"""
    expr = core.strip_casts(expr)  # type: ignore[assignment]
    if isinstance(expr, ast.IfExp):
        t = un(expr.test)
        if t == f"{dtp}.fold":
            return _query_fold(expr.body if fold else expr.orelse, dtp, fold)
        if t == f"not {dtp}.fold":
            return _query_fold(expr.orelse if fold else expr.body, dtp, fold)
        raise core.Unsupported(f"conditional on `{t}`")
    if isinstance(expr, ast.Call) and nun(expr.func) == "self.utcoffset" and len(expr.args) == 1:
        a = expr.args[0]
        if un(a) == dtp:
            return fold
        if isinstance(a, ast.Call) and nun(a.func) == f"{dtp}.replace" and not a.args and len(a.keywords) == 1 \
                and a.keywords[0].arg == "fold" and isinstance(a.keywords[0].value, ast.Constant):
            return int(a.keywords[0].value.value)
    raise core.Unsupported(f"utcoffset query `{un(expr)[:80]}`")


def _shift(expr: ast.expr | None, dtp: str, a: _Abs) -> str:
    """Sign of the shift applied to dt: '0', '+gap' (after-before) or '-gap'."""
    if expr is None:
        return "0"
    expr = core.strip_casts(expr)  # type: ignore[assignment]
    if not (isinstance(expr, ast.BinOp) and isinstance(expr.op, (ast.Add, ast.Sub)) and un(expr.left) == dtp):
        raise core.Unsupported(f"dt reassigned to `{un(expr)[:80]}`")
    d = expr.right
    while isinstance(d, ast.IfExp):
        d = d.body if a.ev(d.test) else d.orelse
    if isinstance(d, ast.BinOp) and isinstance(d.op, ast.Sub):
        l, r = un(d.left), un(d.right)
        if (l, r) == (a.after, a.before):
            s = 1
        elif (l, r) == (a.before, a.after):
            s = -1
        else:
            raise core.Unsupported(f"shift `{un(d)}`")
        if isinstance(expr.op, ast.Sub):
            s = -s
        return "+gap" if s > 0 else "-gap"
    raise core.Unsupported(f"shift `{un(d)}`")


def _abscase(ctx) -> None:
    m = pmod("tz.timezone")
    fn = m.func("Timezone.convert")
    dtp = core.params(fn)[0]
    # the two queries
    q: dict[str, ast.expr] = {}
    for n in core.walk_fn(fn):
        if isinstance(n, ast.Assign) and len(n.targets) == 1 and isinstance(n.targets[0], ast.Name) \
                and "self.utcoffset(" in un(n.value):
            q[n.targets[0].id] = n.value
    if len(q) != 2:
        # which locals does the branch logic compare?  they must be utcoffset() readings
        cmp_names = set()
        for n in core.walk_fn(fn):
            if isinstance(n, ast.If):
                for c in ast.walk(n.test):
                    if isinstance(c, ast.Compare) and isinstance(c.left, ast.Name) and isinstance(c.comparators[0], ast.Name):
                        cmp_names |= {c.left.id, c.comparators[0].id}
        defs = {nm: [nun(v) for v in core.assigns_to(fn, nm)] for nm in cmp_names}
        other = {nm: d for nm, d in defs.items() if d and not any("self.utcoffset(" in x for x in d)}
        if other:
            ctx.ob("ABSCASE.queries", "Timezone.convert/offset-source", False,
                   f"the values compared to classify a wall time are {other}; they must be self.utcoffset(...) readings at fold 0 and 1 "
                   f"(dst() or another proxy misses offset changes that are not DST switches)", m.loc(fn))
        else:
            ctx.unverified("ABSCASE.queries", "Timezone.convert", f"{len(q)} utcoffset queries found (expected 2)", m.loc(fn))
        return
    role: dict[int, str] = {}
    try:
        for name, e in q.items():
            ks = {_query_fold(e, dtp, f) for f in (0, 1)}
            ctx.ob("ABSCASE.queries", f"Timezone.convert/{name}", len(ks) == 1,
                   f"{name} asks for fold {sorted(ks)} depending on the input's fold; it must be independent of it",
                   m.loc(e))
            if len(ks) == 1:
                role.setdefault(ks.pop(), name)
    except core.Unsupported as e:
        ctx.unverified("ABSCASE.queries", "Timezone.convert", str(e), m.loc(fn))
        return
    ok = set(role) == {0, 1} and len(set(role.values())) == 2
    ctx.ob("ABSCASE.queries", "Timezone.convert/both-folds", ok,
           f"utcoffset is queried for folds {sorted(role)}; both the pre-transition (0) and the post-transition (1) "
           f"reading are needed", m.loc(fn))
    if not ok:
        return
    before, after = role[0], role[1]
    ps = cfg.paths(fn)
    want_exc = {"gt": "NonExistingTime", "lt": "AmbiguousTime", "eq": None}
    for order in ("gt", "eq", "lt"):
        for fold in (0, 1):
            for rz in (False, True):
                a = _Abs(dtp, fold, rz, order, before, after)
                case = f"after{ {'gt': '>', 'eq': '=', 'lt': '<'}[order] }before,fold={fold},raise={rz}"
                try:
                    chosen = []
                    for p in ps:
                        if p.holds(f"{dtp}.tzinfo is None") is False:
                            continue
                        if all(a.atom(t) == pol for t, pol in p.assumes()):
                            chosen.append(p)
                    if len(chosen) != 1:
                        raise core.Unsupported(f"{len(chosen)} paths match the case")
                    p = chosen[0]
                    ex = p.exit()
                    if ex[1] == "raise":
                        exc = ex[2].exc
                        got_exc = nun(exc.func) if isinstance(exc, ast.Call) else nun(exc)
                        got = ("raise", got_exc)
                    elif ex[1] == "return":
                        rv = nun(ex[2].value)
                        got = ("return", _shift(cfg.reaching(p, dtp), dtp, a), rv)
                    else:
                        got = ("fall",)
                except core.Unsupported as e:
                    ctx.unverified("ABSCASE.case", f"Timezone.convert[{case}]", str(e), m.loc(fn))
                    continue
                if rz and want_exc[order]:
                    want = ("raise", want_exc[order])
                else:
                    sh = "0" if order != "gt" else ("+gap" if fold else "-gap")
                    want = ("return", sh, f"{dtp}.replace(tzinfo=self)")
                ctx.ob("ABSCASE.case", f"Timezone.convert[{case}]", got == want,
                       f"abstract outcome {got}; the documented rule requires {want}", m.loc(ex[2] if ex[2] is not None else fn))


def _convert_tabulate(ctx) -> None:
    """CONVERT.tabulated: Timezone.convert / Timezone.datetime (and FixedTimezone's) run by the checker's interpreter on naive
    standard-library datetimes.  The zone is a standard-library tzinfo whose utcoffset() answers from one scenario transition
    (a skipped or a repeated stretch of 30 minutes, an hour, a whole day - the date line moves of Pacific/Apia - ; other methods of the class are interpreted from the source).  For wall
    times before, at both ends of, inside and after the stretch, both folds, with and without raise_on_unknown_times: a wall time
    that exists once is returned as it is; inside a repeated stretch the fold selects the occurrence (the value keeps its fold);
    inside a skipped stretch it is moved forward by the length of the gap for fold=1 and backward for fold=0; with
    raise_on_unknown_times NonExistingTime is raised exactly for skipped and AmbiguousTime exactly for repeated wall times;
    every value returned is a valid local time of the zone carrying the zone as tzinfo."""
    import datetime as _dt
    from ..rules import minieval
    m = pmod("tz.timezone")
    H, M30 = _dt.timedelta(hours=1), _dt.timedelta(minutes=30)
    O = _dt.timedelta(hours=1)
    funcs = {st.name: st for st in m.top() if isinstance(st, ast.FunctionDef)}
    glob = {**minieval.module_consts(m), "_datetime": minieval.Stub(datetime=_dt.datetime, timedelta=_dt.timedelta, tzinfo=_dt.tzinfo, timezone=_dt.timezone),
            "NonExistingTime": ValueError, "AmbiguousTime": ValueError, "ValueError": ValueError}

    def make_zone(cls, tr, fixed=None):
        meths = m.methods(cls, inherited=True)
        props = {k for k, f in meths.items() if any(core.dotted(d) == "property" for d in f.decorator_list)}

        class Zone(_dt.tzinfo):
            def utcoffset(self, d):
                if fixed is not None:
                    return fixed
                w = d.replace(tzinfo=None, fold=0)
                kind, t, ln = tr
                if kind == "skip":
                    return O if w < t else O + ln if w >= t + ln else (O if d.fold == 0 else O + ln)
                return O if w < t - ln else O - ln if w >= t else (O if d.fold == 0 else O - ln)

            def dst(self, d):
                return _dt.timedelta(0)

            def tzname(self, d):
                return "Scenario/Zone"

            def __getattr__(self, name):
                if name.startswith("__") or name not in meths:
                    raise AttributeError(name)
                if name in props:
                    return minieval.call(meths[name], [self], {}, {**funcs, "$globals": glob})
                return lambda *a, **k: minieval.call(meths[name], [self, *a], k, {**funcs, "$globals": glob})
        return Zone(), meths
    for cls in ("Timezone", "FixedTimezone"):
        bad, n = [], 0
        try:
            scen = [("skip", _dt.datetime(2021, 3, 28, 2), H), ("skip", _dt.datetime(2021, 10, 3, 2), M30), ("repeat", _dt.datetime(2021, 10, 31, 3), H),
                    ("repeat", _dt.datetime(2021, 4, 4, 2), M30),
                    ("skip", _dt.datetime(2011, 12, 30, 0), _dt.timedelta(days=1)), ("repeat", _dt.datetime(1994, 12, 31, 0), _dt.timedelta(days=1, hours=1))] if cls == "Timezone" else [None]
            for tr in scen:
                z, meths = make_zone(cls, tr, fixed=None if tr else _dt.timedelta(hours=5, minutes=30))
                if tr is None:
                    walls = [_dt.datetime(2021, 3, 28, 2, 30), _dt.datetime(2000, 1, 1)]
                    lo = hi = None
                else:
                    kind, t, ln = tr
                    lo, hi = (t, t + ln) if kind == "skip" else (t - ln, t)
                    walls = [lo - _dt.timedelta(microseconds=1), lo, lo + ln / 2, hi - _dt.timedelta(microseconds=1), hi, hi + H, lo - _dt.timedelta(days=1)]
                for w in walls:
                    inside = tr is not None and lo <= w < hi
                    for fold in (0, 1):
                        for raising in (False, True):
                            n += 1
                            label = f"{cls}.convert({w.isoformat(' ')} fold={fold}" + (", raise_on_unknown_times=True" if raising else "") + ")" + (f" [{tr[0]} {lo.time()}-{hi.time()}]" if tr else "")
                            try:
                                got = minieval.call(meths["convert"], [z, w.replace(fold=fold)] + ([True] if raising else []), {}, {**funcs, "$globals": glob})
                            except minieval.Raised as e:
                                exp = ("NonExistingTime" if tr[0] == "skip" else "AmbiguousTime") if (raising and inside and cls == "Timezone") else None
                                if e.exc_name != exp:
                                    bad.append(f"{label}: raises {e.exc_name}" + (f" (expected {exp})" if exp else ""))
                                continue
                            if raising and inside and cls == "Timezone":
                                bad.append(f"{label}: returns {got!r}; must raise {'NonExistingTime' if tr[0] == 'skip' else 'AmbiguousTime'}")
                                continue
                            if not isinstance(got, _dt.datetime) or got.tzinfo is not z:
                                bad.append(f"{label}: the result does not carry the zone as tzinfo ({got!r})")
                                continue
                            if inside and tr[0] == "skip":
                                want_w = w + ln if fold == 1 else w - ln
                            else:
                                want_w = w
                            if got.replace(tzinfo=None, fold=0) != want_w:
                                bad.append(f"{label}: {got.replace(tzinfo=None).isoformat(' ')} (expected {want_w.isoformat(' ')})")
                            elif inside and tr[0] == "repeat" and got.fold != fold:
                                bad.append(f"{label}: the {'second' if got.fold else 'first'} occurrence (fold={got.fold}) instead of the one the fold selects")
            if "datetime" in meths and cls == "Timezone":
                for tr in scen:
                    z, meths = make_zone(cls, tr)
                    kind, t, ln = tr
                    lo = t if kind == "skip" else t - ln
                    w = lo + ln / 2
                    n += 1
                    got = minieval.call(meths["datetime"], [z, w.year, w.month, w.day, w.hour, w.minute, w.second, w.microsecond], {}, {**funcs, "$globals": glob})
                    want_w = w + ln if kind == "skip" else w
                    if not isinstance(got, _dt.datetime) or got.replace(tzinfo=None, fold=0) != want_w or (kind == "repeat" and got.fold != 1):
                        bad.append(f"{cls}.datetime({w.isoformat(' ')}) [{kind}]: {got!r}; the documented default is the later occurrence / forward")
        except (core.Unsupported, KeyError, TypeError, AttributeError, IndexError, ValueError, RecursionError) as e:
            ctx.unverified("CONVERT.tabulated", f"{cls}.convert", f"outside the checker's interpreter: {type(e).__name__}: {e}", m.rel)
            continue
        ctx.ob("CONVERT.tabulated", f"{cls}.convert", not bad, f"{n} (wall time, fold, flag, transition) cases: " + (f"wrong: {bad[:3]}" if bad else
               "existing wall times unchanged, repeated ones by fold, skipped ones moved by the gap, the exceptions exactly where asked for"), m.rel)
        if not bad:
            ctx.established(("ABSCASE", "UNITS.offset-delta", "DEFAULTS.raise"), f"{cls}.convert", "CONVERT.tabulated")


def _local_env(ctx) -> None:
    """LOCAL.env: the zone local() builds in when TZ is set - `_tz_from_env` run by the checker's interpreter on TZ values with
    and without the POSIX ':' prefix (no file of that name): the zone constructed must be the name without the prefix."""
    from ..rules import minieval
    m = pmod("tz.local_timezone")
    if not m.has_func("_tz_from_env"):
        ctx.unverified("LOCAL.env", "_tz_from_env", "function not found", m.rel)
        return
    fn = m.func("_tz_from_env")
    bad = []
    try:
        for tzenv, want in ((":Europe/Paris", "Europe/Paris"), ("Europe/Paris", "Europe/Paris"), (":UTC", "UTC"), ("America/Argentina/Buenos_Aires", "America/Argentina/Buenos_Aires")):
            made = []
            glob = {"os": minieval.Stub(path=minieval.Stub(isfile=lambda p_: False, exists=lambda p_: False)),
                    "Timezone": minieval.ClassStub(_new=lambda name, *a, **k: (made.append(name), minieval.Stub(_zone=name))[1], _isa=lambda v: False),
                    "ValueError": ValueError}
            funcs = {st.name: st for st in m.top() if isinstance(st, ast.FunctionDef)}
            got = minieval.call(fn, [tzenv], {}, {**funcs, "$globals": glob})
            if getattr(got, "_zone", None) != want:
                bad.append(f"TZ={tzenv!r} builds in zone {getattr(got, '_zone', got)!r} (expected {want!r})")
    except (core.Unsupported, ValueError, TypeError, AttributeError, KeyError, IndexError) as e:
        ctx.unverified("LOCAL.env", "_tz_from_env", f"outside the checker's interpreter: {type(e).__name__}: {e}", m.loc(fn))
        return
    ctx.ob("LOCAL.env", "_tz_from_env", not bad, "; ".join(bad) if bad else "the zone named by TZ, a leading ':' stripped", m.loc(fn))


def run(ctx) -> None:
    ctx.explanation = EXPLANATION
    ctx.step(_convert_tabulate, ctx)
    ctx.step(_local_env, ctx)
    from . import C07
    ctx.step(C07._py_iso_tabulate, ctx)       # ... decided on values first (the table of strings has fractions of every length)
    ctx.step(C07._fraction, ctx, None)        # parse(tz=) returns exactly that wall time: the sub-second digits of the Python parsers
    bad = core.check_bases()
    if bad:
        raise core.AnchorMissing("class hierarchy changed: " + "; ".join(bad))
    ctx.step(_funnel, ctx)
    ctx.step(_defaults, ctx)
    ctx.step(_abscase, ctx)
    dm, tzm = pmod("datetime"), pmod("tz.timezone")
    sites = recon.sites_in(dm, ["DateTime.create"]) + recon.sites_in(tzm, ["FixedTimezone.convert"])
    for s in sites:
        recon.check_site(ctx, s)
    for s in sites:
        if s.func == "FixedTimezone.convert":
            tz = s.bound.get("tzinfo")
            ctx.ob("RECON.rewrap", "FixedTimezone.convert/tzinfo", tz is not None and nun(tz) == "self",
                   f"tzinfo={nun(tz)}; a naive value converted by a fixed zone must be tagged with that zone", s.loc)
    ctx.count("recon_sites", len(sites))
    from ..rules import units as U
    U.partial_timedelta_reads(ctx, "UNITS.offset-delta", tzm, ["Timezone.convert", "Timezone.datetime", "FixedTimezone.convert", "FixedTimezone.datetime"],
                              "the shift applied to a skipped wall time is the full difference of the two offsets")
    ctx.expect_min("UNITS.offset-delta", 4)
    ctx.expect_min("ABSCASE.case", 12)
    ctx.expect_min("FUNNEL", 40)
    ctx.expect_min("RECON.slot", 14)
    ctx.assumptions += ["zoneinfo.utcoffset(dt) honours dt.fold as PEP 495 specifies (trusted)"]
