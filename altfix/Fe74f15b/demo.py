"""from_format() must parse back what format('... z') writes, also for zone
names with more than two parts.  Offsets are checked against zoneinfo."""
import sys
from datetime import datetime
from zoneinfo import ZoneInfo

import pendulum

failures = []
fmt = "YYYY-MM-DD HH:mm:ss z"
names = sorted(pendulum.timezones())
deep = [n for n in names if n.count("/") >= 2]
assert "America/Argentina/Buenos_Aires" in deep and "America/North_Dakota/Center" in deep
sample = deep + ["UTC", "Europe/Paris", "US/Pacific", "Etc/GMT+1", "Etc/GMT-14", "America/Port_of_Spain", "EST5EDT"]

for name in sample:
    for y, mo in ((2021, 1), (2021, 7)):
        src = pendulum.datetime(y, mo, 15, 12, 34, 56, tz=name)
        text = src.format(fmt)
        assert text.endswith(" " + name), text
        try:
            got = pendulum.from_format(text, fmt)
        except Exception as e:  # noqa: BLE001
            failures.append((text, repr(e)))
            continue
        want = datetime(y, mo, 15, 12, 34, 56, tzinfo=ZoneInfo(name))
        if (
            got.timezone_name != name
            or got.utcoffset() != want.utcoffset()
            or got.replace(tzinfo=None) != want.replace(tzinfo=None)
            or got != want
        ):
            failures.append((text, got.isoformat(), want.isoformat()))

# z in the middle of a format, hand-computed: Buenos Aires is UTC-3 all year
got = pendulum.from_format("America/Argentina/Buenos_Aires 2021-07-15 09h", "z YYYY-MM-DD H[h]")
if got.isoformat() != "2021-07-15T09:00:00-03:00":
    failures.append(("middle", got.isoformat()))

# names that are no zones are still rejected
for bad in ("2021-01-15 12:34:56 America/Argentina/Nowhere", "2021-01-15 12:34:56 Europe/Paris/",
            "2021-01-15 12:34:56 /Europe/Paris", "2021-01-15 12:34:56 Europe//Paris"):
    try:
        pendulum.from_format(bad, fmt)
        failures.append(("accepted", bad))
    except ValueError:
        pass

for f in failures[:20]:
    print("FAIL", f)
print("ok" if not failures else f"{len(failures)} failures")
sys.exit(1 if failures else 0)
