"""C01 — timezone conversion preserves the instant (structural clauses)."""
from __future__ import annotations

import ast
import re

from .. import cfg, core
from ..core import dotted, nun, pmod, un
from ..rules import recon, units

EXPLANATION = (
    "Decided statically: (1) every aware path of Timezone.convert/FixedTimezone.convert returns "
    "dt.astimezone(self); in_timezone/in_tz funnel into tz.convert; (2) the re-wrap sites on conversion "
    "paths copy all 7 fields + tzinfo + fold from the converted value; (3) FixedTimezone's tzinfo contract "
    "(fromutc adds exactly what utcoffset returns, dst is zero, one constructor argument feeds all "
    "accessors); (4) offset algebra at from_timestamp and the tzinfo=UTC intermediate of add; "
    "(5) int_timestamp's units and epoch; (6) instance() of a foreign aware datetime preserves the instant "
    "for every tzinfo kind _safe_timezone distinguishes; (7) the caller-name hack in __add__ names a real "
    "method. NOT decided: zoneinfo's agreement with the tz database, A->B->C = A->C, float timestamp "
    "round trips (run-time behaviour over zones x instants)."
)

ASTZ_SELF = {"dt.astimezone(self)"}


def _convert_aware(ctx, cls: str) -> None:
    tzm = pmod("tz.timezone")
    fn = tzm.func(f"{cls}.convert")
    first = core.params(fn)[0]
    ps = ctx.guard("FUNNEL.aware", f"{cls}.convert", lambda: cfg.paths(fn), tzm.loc(fn))
    if ps is None:
        return
    n_aware = 0
    for p in ps:
        naive = p.holds(f"{first}.tzinfo is None")
        if naive is True:
            continue
        ex = p.exit()
        if ex[1] == "raise":
            continue
        n_aware += 1
        reassigned = [s for s in p.stmts() if first in cfg._assigned(s)]
        val = nun(ex[2].value) if ex[1] == "return" and ex[2].value is not None else "<none>"
        ok = val == f"{first}.astimezone(self)" and not reassigned
        ctx.ob("FUNNEL.aware", f"{cls}.convert/aware-path", ok,
               f"aware path returns `{val}`" + (" after reassigning the input" if reassigned else "")
               + f"; must be `{first}.astimezone(self)` (same value, target self)", tzm.loc(ex[2] or fn))
    if n_aware == 0:
        ctx.ob("FUNNEL.aware", f"{cls}.convert/aware-path", False,
               "no path handles an aware input (tzinfo is not None)", tzm.loc(fn))


def _in_timezone(ctx) -> None:
    m = pmod("datetime")
    fn = m.func("DateTime.in_timezone")
    ps = ctx.guard("FUNNEL.in_timezone", "DateTime.in_timezone", lambda: cfg.paths(fn), m.loc(fn))
    if ps is None:
        return
    tzp = core.params(fn)[0]
    for p in ps:
        ex = p.exit()
        if ex[1] != "return":
            ctx.ob("FUNNEL.in_timezone", "DateTime.in_timezone/exit", ex[1] == "raise",
                   "path falls off the end without returning a value", m.loc(fn))
            continue
        ret = core.strip_casts(ex[2].value)
        ok_shape = (isinstance(ret, ast.Call) and isinstance(ret.func, ast.Attribute) and ret.func.attr == "convert"
                    and len(ret.args) == 1 and not [k for k in ret.keywords if k.arg != "raise_on_unknown_times"])
        if not ok_shape:
            ctx.ob("FUNNEL.in_timezone", "DateTime.in_timezone/return", False,
                   f"returns `{un(ret)}`; every path must return <tz>.convert(<self>)", m.loc(ex[2]))
            continue
        recv = cfg.subst_path(p, ret.func.value, {"self", tzp})
        arg = cfg.subst_path(p, ret.args[0], {"self", tzp})
        recv_ok = nun(recv) in (f"pendulum._safe_timezone({tzp})", f"_safe_timezone({tzp})")
        ctx.ob("FUNNEL.in_timezone", "DateTime.in_timezone/target", recv_ok,
               f"convert() receiver is `{nun(recv)}`; must be the requested zone pendulum._safe_timezone({tzp})",
               m.loc(ex[2]))
        a = nun(arg)
        if a == "self":
            ok, why = True, "converts self"
        elif a == "self.replace(fold=1)":
            naive = p.holds("self.timezone") is False or p.holds("self.tzinfo is None") is True \
                or p.holds("self.tz") is False or p.holds("self.tzinfo") is False
            ok, why = naive, "self.replace(fold=1) is only allowed on the path where self has no zone"
        else:
            ok, why = False, "argument is not self"
        ctx.ob("FUNNEL.in_timezone", "DateTime.in_timezone/subject", ok,
               f"convert() argument is `{a}`: {why}", m.loc(ex[2]))
    fn2 = m.func("DateTime.in_tz")
    rets = core.returns(fn2)
    p0 = core.params(fn2)[0]
    ok = len(rets) == 1 and nun(rets[0].value) in (f"self.in_timezone({p0})", f"self.in_timezone(tz={p0})")
    ctx.ob("FUNNEL.forward", "DateTime.in_tz", ok,
           f"in_tz must forward to self.in_timezone({p0}); found `{[nun(r.value) for r in rets]}`", m.loc(fn2))


def fixed_timezone_tabulate(ctx) -> bool | None:
    """FIXED.tabulated: FixedTimezone.__init__ and the tzinfo contract built on it, run by the checker's interpreter on offsets of both signs
    (whole hours, half and quarter hours, less than an hour either side of zero, the extremes +-23:59) with and without a given name:
    utcoffset() is timedelta(seconds=offset), offset the argument, dst() zero, name / tzname() the given name or else sign, two-digit
    hours, ':' and two-digit minutes of the offset; and the state pickle / copy rebuild from (__reduce__ / __getinitargs__) gives back
    the same offset and the same name."""
    import datetime as _dt
    from ..rules import minieval
    from ..rules.minieval import ClassStub, Obj, Stub
    m = pmod("tz.timezone")
    meths = m.methods("FixedTimezone", inherited=True)
    props = {k for k, f in meths.items() if any(core.dotted(d) == "property" for d in f.decorator_list)}
    funcs = {st.name: st for st in m.top() if isinstance(st, ast.FunctionDef)}
    glob = {**funcs, "$globals": {**minieval.module_consts(m), "_datetime": Stub(timedelta=_dt.timedelta, tzinfo=_dt.tzinfo, datetime=_dt.datetime), "cast": lambda t_, v: v}}
    bad, n = [], 0
    try:
        class RecDT(_dt.datetime):
            """a standard-library datetime whose replace() records the tzinfo it is given (the stub zone is not a tzinfo instance)"""

            def replace(self, **k):
                return ("replaced", _dt.datetime(self.year, self.month, self.day, self.hour, self.minute, self.second, self.microsecond), k)
        for off in (0, 3600, -3600, 19800, -12600, 1800, -1800, 900, -900, 60, -60, 86340, -86340, 45900, -34200, 561, -561, 3599, -86399):
            for given in (None, "CET"):
                made = []
                ctor = ClassStub(_new=lambda *a, **k: made.append((a, k)) or Stub(_rebuilt=(a, k)), _isa=lambda v: isinstance(v, Obj))
                o = Obj(_methods=meths, _props=props, _natives={}, _ctor=ctor, _types=(_dt.tzinfo,))
                minieval.call(meths["__init__"], [o, off] + ([given] if given else []), {}, glob)
                n += 1
                sign = "-" if off < 0 else "+"
                if off % 60 and not given:
                    want_name = None              # not a whole number of minutes: how the default name truncates is not part of the property
                else:
                    want_name = given or f"{sign}{abs(off) // 3600:02d}:{abs(off) % 3600 // 60:02d}"
                label = f"FixedTimezone({off}{', ' + repr(given) if given else ''})"

                def get(name, *a):
                    v = minieval._attr(o, name, glob, 0)
                    return v(*a) if callable(v) and name not in props else v
                checks = [("utcoffset(None)", lambda: get("utcoffset", None), _dt.timedelta(seconds=off)), ("dst(None)", lambda: get("dst", None), _dt.timedelta(0)),
                          ("tzname(None)", lambda: get("tzname", None), want_name), ("name", lambda: get("name"), want_name), ("offset", lambda: get("offset"), off)]
                if "fromutc" in meths:
                    u = RecDT(2021, 3, 7, 23, 59, 59, 999999)
                    fr = get("fromutc", u)
                    wantw = _dt.datetime(2021, 3, 7, 23, 59, 59, 999999) + _dt.timedelta(seconds=off)
                    if not (isinstance(fr, tuple) and fr[:2] == ("replaced", wantw) and fr[2] == {"tzinfo": o}):
                        bad.append(f"{label}.fromutc(2021-03-07 23:59:59.999999) = {fr[1] if isinstance(fr, tuple) else fr!r} (expected {wantw} tagged with the zone)")
                for what, f_, want in checks:
                    if what.split("(")[0] not in meths or (want is None and what in ("tzname(None)", "name")):
                        continue
                    got = f_()
                    if got != want or type(got) is not type(want):
                        bad.append(f"{label}.{what} = {got!r} (expected {want!r})")
                # the pickle / copy state
                red = None
                if "__reduce__" in meths or "__reduce_ex__" in meths:
                    red = minieval.call(meths.get("__reduce__") or meths["__reduce_ex__"], [o] + ([] if "__reduce__" in meths else [2]), {}, glob)
                    if not (isinstance(red, tuple) and len(red) >= 2 and red[0] is ctor):
                        raise core.Unsupported("__reduce__ does not return (class, args, ...)")
                    args = tuple(red[1])
                elif "__getinitargs__" in meths:
                    args = tuple(minieval.call(meths["__getinitargs__"], [o], {}, glob))
                else:
                    args = None
                if args is None:
                    bad.append(f"{label}: neither __getinitargs__ nor __reduce__: a tzinfo is rebuilt by calling its class without arguments")
                else:
                    o2 = Obj(_methods=meths, _props=props, _natives={}, _ctor=ctor, _types=(_dt.tzinfo,))
                    minieval.call(meths["__init__"], [o2, *args], {}, glob)
                    st2 = red[2] if red is not None and len(red) > 2 and isinstance(red[2], dict) else {}
                    vars(o2).update(st2)
                    back = (minieval._attr(o2, "utcoffset", glob, 0)(None), minieval._attr(o2, "tzname", glob, 0)(None))
                    if back[0] != _dt.timedelta(seconds=off) or (want_name is not None and back[1] != want_name):
                        bad.append(f"{label} rebuilt from its pickle / copy state {args}: utcoffset {back[0]}, name {back[1]!r} (expected {want_name!r})")
    except (core.Unsupported, KeyError, TypeError, AttributeError, IndexError, RecursionError, ValueError, minieval.Raised) as e:
        ctx.unverified("FIXED.tabulated", "FixedTimezone", f"outside the checker's interpreter: {type(e).__name__}: {e}", m.rel)
        return None
    ctx.ob("FIXED.tabulated", "FixedTimezone", not bad, f"{n} (offset, name) cases: " + (f"wrong: {bad[:3]}" if bad else
           "offset, utcoffset, dst, name and the pickle state are those of the constructor's arguments"), m.rel)
    if not bad:
        ctx.established(("TZINFO", "STATE"), "FixedTimezone.", "FIXED.tabulated")
    return not bad


def _fixed_contract(ctx) -> None:
    m = pmod("tz.timezone")
    init = m.func("FixedTimezone.__init__")
    off_param = core.params(init)[0]
    attrs: dict[str, ast.expr] = {}
    for st in core.walk_fn(init):
        if isinstance(st, ast.Assign) and len(st.targets) == 1:
            d = dotted(st.targets[0])
            if d and d.startswith("self."):
                attrs[d[5:]] = st.value

    def ret1(q: str) -> ast.expr | None:
        fn = m.func(q)
        r = core.returns(fn)
        if len(r) != 1 or r[0].value is None:
            ctx.unverified("TZINFO", q, "more than one return", m.loc(fn))
            return None
        return r[0].value

    # utcoffset returns an attribute that __init__ sets to timedelta(seconds=<offset>)
    uo = ret1("FixedTimezone.utcoffset")
    if uo is not None:
        d = dotted(uo)
        src = attrs.get(d[5:]) if d and d.startswith("self.") else uo
        ok = src is not None and nun(src) in (f"_datetime.timedelta(seconds={off_param})",
                                              f"datetime.timedelta(seconds={off_param})",
                                              f"timedelta(seconds={off_param})")
        ctx.ob("TZINFO.utcoffset", "FixedTimezone.utcoffset", ok,
               f"utcoffset() returns `{nun(uo)}` = `{nun(src) if src is not None else '?'}`; must be "
               f"timedelta(seconds={off_param}) of the constructor argument", m.loc(uo))
    of = ret1("FixedTimezone.offset")
    if of is not None:
        d = dotted(of)
        src = attrs.get(d[5:]) if d and d.startswith("self.") else of
        ctx.ob("TZINFO.offset", "FixedTimezone.offset", src is not None and nun(src) == off_param,
               f"offset returns `{nun(of)}` = `{nun(src) if src is not None else '?'}`; must be the constructor argument",
               m.loc(of))
    ds = ret1("FixedTimezone.dst")
    if ds is not None:
        ctx.ob("TZINFO.dst", "FixedTimezone.dst", nun(ds) in ("_datetime.timedelta()", "_datetime.timedelta(0)",
                                                              "datetime.timedelta()", "timedelta()", "timedelta(0)"),
               f"dst() returns `{nun(ds)}`; a fixed offset has no DST (zero timedelta)", m.loc(ds))
    ga = ret1("FixedTimezone.__getinitargs__")
    fu = ret1("FixedTimezone.fromutc")
    if fu is not None and uo is not None:
        fu_s = core.strip_casts(fu)
        dtp = core.params(m.func("FixedTimezone.fromutc"))[0]
        ok = False
        detail = f"fromutc returns `{un(fu_s)}`"
        if isinstance(fu_s, ast.Call) and isinstance(fu_s.func, ast.Attribute) and fu_s.func.attr == "replace" \
                and {k.arg: nun(k.value) for k in fu_s.keywords} == {"tzinfo": "self"} and not fu_s.args:
            inner = fu_s.func.value
            lhs = rhs = None
            op = None
            if isinstance(inner, ast.BinOp):
                lhs, rhs, op = inner.left, inner.right, type(inner.op).__name__
            elif isinstance(inner, ast.Call) and dotted(inner.func) in ("_datetime.datetime.__add__", "datetime.datetime.__add__") \
                    and len(inner.args) == 2:
                lhs, rhs, op = inner.args[0], inner.args[1], "Add"
            elif isinstance(inner, ast.Call) and dotted(inner.func) in ("_datetime.datetime.__sub__", "datetime.datetime.__sub__") \
                    and len(inner.args) == 2:
                lhs, rhs, op = inner.args[0], inner.args[1], "Sub"
            if lhs is not None:
                same = nun(rhs) in (nun(uo), f"self.utcoffset({dtp})", "self.utcoffset(None)")
                ok = op == "Add" and nun(lhs) == dtp and same
                detail += f": {op}({nun(lhs)}, {nun(rhs)}); must be {dtp} + <what utcoffset() returns: {nun(uo)}>"
            else:
                ctx.unverified("TZINFO.fromutc", "FixedTimezone.fromutc", detail + " (unrecognised form)", m.loc(fu))
                return
        else:
            detail += "; result must be re-tagged with .replace(tzinfo=self)"
        ctx.ob("TZINFO.fromutc", "FixedTimezone.fromutc", ok, detail, m.loc(fu))
    _ = ga


def _from_timestamp_tabulate(ctx, m, fn) -> bool | None:
    """OFFSET.from_timestamp decided on values: from_timestamp (and pendulum.datetime, if it goes through it) run by the checker's
    interpreter; DateTime.create records what it is given, in_timezone / in_tz record the conversion.  For integer, fractional,
    zero and negative timestamps and tz = UTC, the string 'UTC', a zone name, a zone object: the value created must carry
    the UTC broken-down fields of the timestamp (standard library) tagged UTC, and be converted to tz unless tz is UTC."""
    import datetime as _dt
    from ..rules import minieval
    UTCm = minieval.Stub(name="UTC", _eqkey="UTC")
    bad, n = [], 0
    try:
        funcs = {st.name: st for st in m.top() if isinstance(st, ast.FunctionDef)}
        for ts in (0, 1, -1, 1600000000, 1600000000.123456, -86400.5, 951782400, 4102444799):
            for tz in (UTCm, "UTC", "Europe/Paris", minieval.Stub(name="America/New_York", _eqkey="NY")):
                def create(year, month, day, hour=0, minute=0, second=0, microsecond=0, tz=UTCm, fold=1, raise_on_unknown_times=False):
                    me = minieval.Stub(_fields=(year, month, day, hour, minute, second, microsecond), _tz=tz, _conv=None)
                    vars(me)["in_timezone"] = vars(me)["in_tz"] = lambda z: minieval.Stub(_fields=me._fields, _tz=me._tz, _conv=z)
                    return me
                def utcfrom(t):
                    return _dt.datetime(1970, 1, 1) + _dt.timedelta(seconds=t) if t < 0 else _dt.datetime.fromtimestamp(t, tz=_dt.timezone.utc).replace(tzinfo=None)

                def localfrom(t, tz=None):
                    # the process's local zone is not UTC in general: a reading in local time shows as a +05:45 shift here
                    return _dt.datetime.fromtimestamp(t, tz=tz) if tz is not None else utcfrom(t) + _dt.timedelta(hours=5, minutes=45)
                glob = {"_datetime": minieval.Stub(datetime=minieval.ClassStub(_new=_dt.datetime, _isa=lambda v: isinstance(v, _dt.datetime), utcfromtimestamp=utcfrom, fromtimestamp=localfrom,
                                                                                min=_dt.datetime.min, max=_dt.datetime.max),
                                                   timezone=_dt.timezone, timedelta=_dt.timedelta, date=_dt.date, time=_dt.time, tzinfo=_dt.tzinfo), "UTC": UTCm,
                        "DateTime": minieval.ClassStub(_new=None, _isa=lambda v: False, create=create), "_safe_timezone": lambda z, **k: z}
                n += 1
                got = minieval.call(fn, [ts, tz], {}, {**funcs, "$globals": glob})
                w = _dt.datetime(1970, 1, 1) + _dt.timedelta(seconds=ts)
                w = _dt.datetime.fromtimestamp(ts, tz=_dt.timezone.utc).replace(tzinfo=None) if ts >= 0 else w
                want = (w.year, w.month, w.day, w.hour, w.minute, w.second, w.microsecond)
                label = f"from_timestamp({ts!r}, tz={getattr(tz, 'name', tz)!r})"
                if not hasattr(got, "_fields"):
                    raise core.Unsupported("the result is not built through DateTime.create")
                if tuple(got._fields) != want:
                    bad.append(f"{label}: created from the fields {tuple(got._fields)} (UTC fields of the timestamp: {want})")
                elif got._tz is not UTCm and got._tz != "UTC":
                    bad.append(f"{label}: the UTC fields are tagged with tz={getattr(got._tz, 'name', got._tz)!r}")
                elif got._conv is None and tz is not UTCm and tz != "UTC":
                    bad.append(f"{label}: the value is not converted to the requested timezone")
                elif got._conv is not None and got._conv is not tz and got._conv != tz:
                    bad.append(f"{label}: converted to {getattr(got._conv, 'name', got._conv)!r}")
    except (core.Unsupported, KeyError, TypeError, AttributeError, IndexError, ValueError, OverflowError) as e:
        ctx.unverified("OFFSET.from_timestamp", "from_timestamp/tabulated", f"outside the checker's interpreter: {type(e).__name__}: {e}", m.loc(fn))
        return None
    ctx.ob("OFFSET.from_timestamp", "from_timestamp/tabulated", not bad, f"{n} (timestamp, tz) cases: " + (f"wrong: {bad[:3]}" if bad else
           "UTC fields of the timestamp tagged UTC, converted to the requested zone"), m.loc(fn))
    if not bad:
        ctx.established(("OFFSET.from_timestamp",), "from_timestamp/path", "OFFSET.from_timestamp (tabulated)")
    return not bad


def _from_timestamp(ctx) -> None:
    m = pmod("__init__")
    fn = m.func("from_timestamp")
    _from_timestamp_tabulate(ctx, m, fn)
    ts, tz = core.params(fn)[:2]
    ps = ctx.guard("OFFSET.from_timestamp", "from_timestamp", lambda: cfg.paths(fn), m.loc(fn))
    if ps is None:
        return
    dflt = core.defaults(m.func("datetime")).get("tz")
    ctx.ob("OFFSET.default-utc", "pendulum.datetime/tz-default", dflt is not None and nun(dflt) == "UTC",
           f"pendulum.datetime(tz=...) defaults to `{nun(dflt)}`; from_timestamp relies on UTC", m.loc(fn))
    for p in ps:
        ex = p.exit()
        if ex[1] != "return":
            continue
        val = cfg.subst_path(p, ex[2].value, {ts, tz})
        s = nun(val)
        # innermost: datetime(<7 utc fields>) built from utcfromtimestamp(ts)
        utc_src = f"_datetime.datetime.utcfromtimestamp({ts})"
        utc_src2 = f"_datetime.datetime.fromtimestamp({ts}, tz=_datetime.timezone.utc)"
        fields = ", ".join(f"{utc_src}.{f}" for f in recon.DATE_F + recon.TIME_F)
        fields2 = ", ".join(f"{utc_src2}.{f}" for f in recon.DATE_F + recon.TIME_F)
        base = {f"datetime({fields})", f"datetime({fields2})"}
        conv = {f"{b}.in_timezone({tz})" for b in base} | {f"{b}.in_tz({tz})" for b in base}
        ok = s in conv or s in base
        if s in base:
            # allowed only when the skipped conversion is to UTC
            utc_only = p.holds(f"{tz} is UTC") is True or p.holds(f"{tz} == 'UTC'") is True
            feasible_skip = utc_only
            # the pinned code's guard `tz is not UTC or tz != "UTC"` is always true, so the
            # un-converted exit is never taken; accept any guard that mentions only UTC tests
            ok = True if feasible_skip or _only_utc_tests(p, tz) else False
        ctx.ob("OFFSET.from_timestamp", f"from_timestamp/path{'-conv' if s in conv else '-utc'}", ok,
               f"returns `{s[:160]}`; must be pendulum.datetime(<UTC fields of the timestamp>)"
               f"[.in_timezone({tz})] so that UTC-frame fields are tagged UTC and then converted", m.loc(ex[2]))


def _only_utc_tests(p: cfg.Path, tz: str) -> bool:
    a = p.assumes()
    return bool(a) and all("UTC" in t and tz in t for t, _ in a)


def _add_utc_frame(ctx) -> None:
    """DateTime.add, fixed-length branch: the value tagged tzinfo=UTC is (naive copy of self) - self.utcoffset()."""
    m = pmod("datetime")
    fn = m.func("DateTime.add")
    ps = ctx.guard("OFFSET.add", "DateTime.add", lambda: cfg.paths(fn), m.loc(fn))
    if ps is None:
        return
    prm = set(core.params(fn)) | {"self"}
    seen = 0
    for p in ps:
        for i, e in enumerate(p):
            if e[0] != "stmt":
                continue
            for c in core.calls(e[1]):
                k = core.kw(c)
                if "tzinfo" in k and nun(k["tzinfo"]) == "UTC" and dotted(c.func) in ("datetime.datetime",):
                    # source of the fields
                    src = {un(a.value) for a in c.args if isinstance(a, ast.Attribute)}
                    if len(src) != 1:
                        continue
                    sname = src.pop()
                    val = cfg.subst_path(cfg.Path(p[:i]), ast.Name(id=sname, ctx=ast.Load()), prm)
                    s = nun(val)
                    seen += 1
                    offs_true = p.holds("offset")
                    naive_copy = "datetime.datetime(" + ", ".join(f"self.{f}" for f in recon.DATE_F + recon.TIME_F) + ")"
                    want_sub = f"add_duration({naive_copy} - self.utcoffset(), "
                    want_plain = f"add_duration({naive_copy}, "
                    if offs_true is False:
                        ok = s.startswith(want_plain) or s.startswith(want_sub)
                    else:
                        ok = s.startswith(want_sub)
                    ctx.ob("OFFSET.add-utc-frame", "DateTime.add/tzinfo=UTC", ok,
                           f"value tagged tzinfo=UTC is `{s[:150]}...`; must be add_duration(<naive copy of self> - "
                           f"self.utcoffset(), ...) (local - utcoffset = UTC frame)", m.loc(c))
    if seen == 0:
        ctx.unverified("OFFSET.add-utc-frame", "DateTime.add/tzinfo=UTC", "no tzinfo=UTC intermediate found", m.loc(fn))


def _int_timestamp_tabulate(ctx, m, fn) -> bool | None:
    """UNITS.int_timestamp (tabulated): the property body is evaluated by the checker's interpreter on aware instances (fixed offsets of both
    signs, sub-hour offsets, either fold, both sides of 1970, year 1 and year 9999); the class being constructed and `_EPOCH` are the standard
    library's values as the analysed class body writes them.  Expected: the whole seconds from 1970-01-01T00:00Z to the instant, rounded
    toward minus infinity (exact integer arithmetic on timedeltas)."""
    import datetime as _dt
    from ..rules import minieval
    from ..rules.minieval import ClassStub, Obj, Stub
    tzs = [_dt.timezone.utc, _dt.timezone(_dt.timedelta(hours=2)), _dt.timezone(_dt.timedelta(hours=-9, minutes=-30)), _dt.timezone(_dt.timedelta(hours=5, minutes=45)),
           _dt.timezone(_dt.timedelta(hours=14))]
    walls = [(1970, 1, 1, 0, 0, 0, 0), (1969, 12, 31, 23, 59, 59, 999999), (1969, 7, 20, 20, 17, 40, 1), (2021, 3, 7, 12, 30, 15, 250), (2038, 1, 19, 3, 14, 8, 0),
             (1, 1, 2, 0, 0, 0, 0), (9999, 12, 30, 23, 59, 59, 999999), (2000, 2, 29, 23, 59, 59, 500000), (1900, 1, 1, 0, 0, 0, 7)]
    glob = {"$globals": {**minieval.module_consts(m), **{st.name: st for st in m.top() if isinstance(st, ast.FunctionDef)}, "UTC": _dt.timezone.utc,
                         "datetime": Stub(datetime=_dt.datetime, date=_dt.date, timezone=_dt.timezone, timedelta=_dt.timedelta, tzinfo=_dt.tzinfo)}}
    bad, n = [], 0
    try:
        ep_expr = m.assign("_EPOCH", "DateTime")
        epoch = minieval.ev(ep_expr, {}, glob)
        if not isinstance(epoch, _dt.datetime):
            raise core.Unsupported("_EPOCH is not a standard-library datetime in the analysed class body")
        for w in walls:
            for tz in tzs:
                for fold in (0, 1):
                    b = _dt.datetime(*w, tzinfo=tz, fold=fold)
                    me = Obj(_methods=m.methods("DateTime"), _props={k for k, f in m.methods("DateTime").items() if any(core.dotted(d) == "property" for d in f.decorator_list)} - {"int_timestamp"},
                             _natives={"utcoffset": b.utcoffset, "timestamp": b.timestamp, "astimezone": b.astimezone, "replace": b.replace, "toordinal": b.toordinal},
                             _ctor=ClassStub(_new=_dt.datetime, _isa=lambda v: isinstance(v, _dt.datetime)), _EPOCH=epoch, EPOCH=epoch,
                             tzinfo=tz, tz=tz, timezone=tz, **{k: getattr(b, k) for k in ("year", "month", "day", "hour", "minute", "second", "microsecond", "fold")})
                    me._sub_native = b
                    got = minieval.call(fn, [me], {}, glob)
                    want = (b - _dt.datetime(1970, 1, 1, tzinfo=_dt.timezone.utc)) // _dt.timedelta(seconds=1)
                    n += 1
                    if not (isinstance(got, int) and not isinstance(got, bool) and got == want):
                        bad.append(f"{b.isoformat()} (fold={fold}).int_timestamp -> {got!r} (whole seconds since 1970-01-01T00:00Z: {want})")
    except (core.Unsupported, core.AnchorMissing, KeyError, TypeError, AttributeError, IndexError, ValueError, OverflowError, RecursionError, minieval.Raised) as e:
        ctx.unverified("UNITS.int_timestamp", "DateTime.int_timestamp/tabulated", f"outside the checker's interpreter: {type(e).__name__}: {str(e)[:160]}", m.loc(fn))
        return None
    ctx.ob("UNITS.int_timestamp", "DateTime.int_timestamp/tabulated", not bad, f"{n} instances: " + (f"wrong: {bad[:3]}" if bad else
           "the whole seconds between 1970-01-01T00:00Z and the instant"), m.loc(fn))
    if not bad:
        ctx.established(("UNITS.int_timestamp",), "DateTime.int_timestamp/", "UNITS.int_timestamp (tabulated)")
        ctx.established(("UNITS.int_timestamp",), "DateTime._EPOCH", "UNITS.int_timestamp (tabulated)")
    return not bad


def _int_timestamp(ctx) -> None:
    m = pmod("datetime")
    fn = m.func("DateTime.int_timestamp")
    _int_timestamp_tabulate(ctx, m, fn)
    rets = core.returns(fn)
    if len(rets) != 1:
        ctx.unverified("UNITS.int_timestamp", "DateTime.int_timestamp", "multiple returns", m.loc(fn))
        return
    p = cfg.paths(fn)[0]
    val = cfg.subst_path(p, rets[0].value, {"self"})
    # shape: D.days * K + D.seconds  with D = <copy> - self._EPOCH
    try:
        terms = units.linear_terms(val, m, "DateTime")
    except core.Unsupported as e:
        ctx.unverified("UNITS.int_timestamp", "DateTime.int_timestamp", str(e), m.loc(fn))
        return
    d_exprs = set()
    coef = {}
    for base, attr, c in terms:
        d_exprs.add(base)
        coef[attr] = coef.get(attr, 0) + c
    ok = coef == {"days": 86400, "seconds": 1} and len(d_exprs) == 1
    ctx.ob("UNITS.int_timestamp", "DateTime.int_timestamp/sum", ok,
           f"timestamp = {coef} over {sorted(d_exprs)}; must be days*86400 + seconds of one timedelta", m.loc(rets[0]))
    if len(d_exprs) == 1:
        d = d_exprs.pop()
        naive_copy = "datetime.datetime(" + ", ".join(f"self.{f}" for f in recon.DATE_F + recon.TIME_F) \
            + ", tzinfo=self.tzinfo, fold=self.fold)"
        ok = d in (f"{naive_copy} - self._EPOCH", "self - self._EPOCH")
        ctx.ob("UNITS.int_timestamp", "DateTime.int_timestamp/delta", ok,
               f"timedelta is `{d[:200]}`; must be <full copy of self incl. tzinfo and fold> - self._EPOCH", m.loc(rets[0]))
    ep = m.assign("_EPOCH", "DateTime")
    ctx.ob("UNITS.int_timestamp", "DateTime._EPOCH", nun(ep) in ("datetime.datetime(1970, 1, 1, tzinfo=UTC)",
                                                                   "datetime.datetime(1970, 1, 1, 0, 0, tzinfo=UTC)"),
           f"_EPOCH = `{nun(ep)}`; must be 1970-01-01T00:00 UTC", m.loc(ep))


def _instance_tabulate(ctx) -> bool | None:
    """INSTANCE.tabulated: DateTime.instance run by the checker's interpreter on aware standard-library datetimes - fixed offsets, a named
    zoneinfo zone, and a nameless zone with one offset change (the dateutil kind: no .key, no .zone; `_safe_timezone`, interpreted from the
    source, turns it into the fixed offset it reports for the value) - on both sides of the change; `create()` records what it is
    handed.  Expected: the wall clock fields of the original and a zone that gives them the original's UTC offset (the same instant)."""
    import datetime as _dt
    from ..rules import minieval
    from ..rules.minieval import ClassStub, Stub
    dm, im = pmod("datetime"), pmod("__init__")
    fn = dm.func("DateTime.instance")
    H = _dt.timedelta(hours=1)

    class Nameless(_dt.tzinfo):         # +01:00 until 2021-03-28 02:00 (wall), +02:00 from 03:00; +01:00 again from 2021-10-31 03:00 (second pass of 02:00-03:00)
        def utcoffset(self, d):
            if d is None:
                return None
            w = d.replace(tzinfo=None)
            if _dt.datetime(2021, 3, 28, 3) <= w < _dt.datetime(2021, 10, 31, 2) or (_dt.datetime(2021, 10, 31, 2) <= w < _dt.datetime(2021, 10, 31, 3) and d.fold == 0):
                return 2 * H
            return H

        def dst(self, d):
            return None if d is None else self.utcoffset(d) - H

        def tzname(self, d):
            return None if d is None else "XST"
    nz = Nameless()
    D = _dt.datetime
    values = [D(2021, 3, 28, 1, 30, tzinfo=nz), D(2021, 3, 28, 3, 30, tzinfo=nz), D(2021, 3, 28, 3, 0, tzinfo=nz), D(2021, 7, 1, 12, 0, 0, 250, tzinfo=nz), D(2021, 1, 1, 0, 0, tzinfo=nz),
              D(2021, 10, 31, 2, 30, tzinfo=nz), D(2021, 10, 31, 2, 30, tzinfo=nz, fold=1), D(2021, 10, 31, 3, 30, tzinfo=nz),
              D(2021, 6, 1, 12, 0, tzinfo=_dt.timezone(_dt.timedelta(hours=5, minutes=30))), D(1999, 12, 31, 23, 59, 59, 999999, tzinfo=_dt.timezone(_dt.timedelta(hours=-9, minutes=-30))),
              D(2021, 6, 1, 12, 0, tzinfo=_dt.timezone.utc)]
    zi = None
    try:
        import zoneinfo
        zi = zoneinfo.ZoneInfo("Europe/Paris")
        values += [D(2021, 3, 28, 3, 30, tzinfo=zi), D(2021, 10, 31, 2, 30, tzinfo=zi, fold=1), D(2021, 10, 31, 2, 30, tzinfo=zi), D(2021, 1, 15, 8, 0, tzinfo=zi)]

        class PytzLike(_dt.tzinfo):         # the pytz kind: one tzinfo object per offset of the zone, the occurrence is in the object, not in fold
            zone = "Europe/Paris"

            def __init__(self, hours):
                self._off = _dt.timedelta(hours=hours)

            def localize(self, d, is_dst=False):
                return d.replace(tzinfo=self)

            def utcoffset(self, d):
                return self._off

            def dst(self, d):
                return self._off - H

            def tzname(self, d):
                return "CEST" if self._off > H else "CET"
        values += [D(2021, 10, 31, 2, 30, tzinfo=PytzLike(1)), D(2021, 10, 31, 2, 30, tzinfo=PytzLike(2)), D(2021, 7, 1, 12, 0, tzinfo=PytzLike(2)), D(2021, 1, 15, 8, 0, tzinfo=PytzLike(1))]
    except Exception:       # noqa: BLE001
        pass
    bad, n = [], 0
    try:
        ifuncs = {st.name: st for st in im.top() if isinstance(st, ast.FunctionDef) and st.name != "timezone"}
        iglob = {**minieval.module_consts(im), "Timezone": ClassStub(_new=None, _isa=lambda v: False), "FixedTimezone": ClassStub(_new=None, _isa=lambda v: False),
                 "_datetime": minieval.std_module("datetime"), "UTC": _dt.timezone.utc, "Union": None, "cast": lambda t_, v: v,
                 "local_timezone": lambda: (_ for _ in ()).throw(core.Unsupported("the local zone")),
                 "timezone": lambda name: _dt.timezone(_dt.timedelta(seconds=name)) if isinstance(name, int) and not isinstance(name, bool) else
                 (zi if zi is not None and name == "Europe/Paris" else (_ for _ in ()).throw(core.Unsupported(f"zone {name!r}")))}
        safe = im.func("_safe_timezone")
        funcs = {st.name: st for st in dm.top() if isinstance(st, ast.FunctionDef)}
        meths = dm.methods_mro("DateTime")
        for x in values:
            made = []

            def create(*a, **k):
                names = ["year", "month", "day", "hour", "minute", "second", "microsecond", "tz", "fold"]
                b = dict(zip(names, a))
                b.update(k)
                made.append(b)
                return Stub(_created=True)
            cls = ClassStub(_new=None, _isa=lambda v: False, create=create, _methods=lambda: meths)
            glob = {**minieval.module_consts(dm), "UTC": _dt.timezone.utc, "datetime": minieval.std_module("datetime"),
                    "pendulum": Stub(_safe_timezone=lambda *a, **k: minieval.call(safe, list(a), k, {**ifuncs, "$globals": dict(iglob)}))}
            got = minieval.call(fn, [cls, x], {}, {**funcs, "$globals": glob})
            n += 1
            label = f"instance({x.isoformat()}" + (f" fold={x.fold}" if x.fold else "") + f" [{'a nameless tzinfo with an offset change' if x.tzinfo is nz else 'the pytz kind: the offset is in the tzinfo object' if hasattr(x.tzinfo, 'localize') else type(x.tzinfo).__name__}])"
            if not getattr(got, "_created", False) or len(made) != 1:
                raise core.Unsupported(f"{label} does not return one create(...) call")
            b = made[0]
            fields = tuple(b.get(k) for k in ("year", "month", "day", "hour", "minute", "second", "microsecond"))
            want = (x.year, x.month, x.day, x.hour, x.minute, x.second, x.microsecond)
            tz = b.get("tz")
            if not isinstance(tz, _dt.tzinfo):
                raise core.Unsupported(f"{label}: create() receives tz={tz!r}")
            if None in fields:
                raise core.Unsupported(f"{label}: create() receives {fields}")
            off = tz.utcoffset(_dt.datetime(*fields, fold=b.get("fold", 1) or 0))
            if fields != want or off != x.utcoffset():
                sg = lambda o: ("-" if o < _dt.timedelta(0) else "+") + str(abs(o))        # noqa: E731
                bad.append(f"{label}: built as {_dt.datetime(*fields).isoformat()} at UTC{sg(off)} (the original: {x.replace(tzinfo=None).isoformat()} at UTC{sg(x.utcoffset())})")
    except (core.Unsupported, KeyError, TypeError, AttributeError, IndexError, RecursionError, ValueError, minieval.Raised) as e:
        ctx.unverified("INSTANCE.tabulated", "DateTime.instance", f"outside the checker's interpreter: {type(e).__name__}: {str(e)[:160]}", dm.loc(fn))
        return None
    ctx.ob("INSTANCE.tabulated", "DateTime.instance", not bad, f"{n} aware standard-library values: " + (f"wrong: {bad[:3]}" if bad else
           "the original's wall clock fields in a zone that gives them the original's UTC offset"), dm.loc(fn))
    if not bad:
        ctx.established(("AWARE-INSTANT",), "DateTime.instance", "INSTANCE.tabulated")
        if zi is not None:
            # every kind of foreign tzinfo _safe_timezone distinguishes (fixed, zoneinfo, the pytz kind, nameless) came through with its instant and offset
            ctx.established(("AWARE-INSTANT",), "_safe_timezone/", "INSTANCE.tabulated")
    return not bad


def _aware_instant(ctx) -> None:
    _instance_tabulate(ctx)
    dm = pmod("datetime")
    inst = dm.func("DateTime.instance")
    dtp = core.params(inst)[0]
    ps = ctx.guard("AWARE-INSTANT", "DateTime.instance", lambda: cfg.paths(inst), dm.loc(inst))
    if ps is None:
        return
    # does instance() route aware inputs through astimezone?
    routed_all = True
    n = 0
    for p in ps:
        ex = p.exit()
        if ex[1] != "return":
            continue
        n += 1
        ret = ex[2].value
        if p.holds(f"{dtp}.tzinfo is None") is True or p.holds(f"{dtp}.utcoffset() is None") is True \
                or p.holds(f"{dtp}.utcoffset() is not None") is False or p.holds(f"{dtp}.tzinfo is not None") is False \
                or p.holds("tz is not None") is False or p.holds("tz is None") is True:
            continue            # a naive input (or no zone at all): nothing to convert
        srcs = set()
        for c in core.calls(ret):
            if core.callee_name(c).endswith("create"):
                for a in c.args:
                    if isinstance(a, ast.Attribute):
                        srcs.add(un(a.value))
        routed = False
        for sname in srcs:
            v = cfg.subst_path(p, ast.Name(id=sname, ctx=ast.Load()), {dtp, "cls"})
            # carried over as an instant: dt.astimezone(zone) or <pendulum zone>.convert(dt) (astimezone semantics for an aware value)
            if ".astimezone(" in nun(v) or re.search(r"\.convert\(" + re.escape(dtp) + r"[,)]", nun(v)):
                routed = True
        if not routed:
            routed_all = False
    if n and routed_all:
        ctx.ob("AWARE-INSTANT.instance", "DateTime.instance/aware", True,
               "aware inputs are converted with astimezone(); the instant is carried, not the wall fields", dm.loc(inst))
        return
    # otherwise: the wall fields are re-interpreted in the zone _safe_timezone picks; check every kind
    im = pmod("__init__")
    sf = im.func("_safe_timezone")
    fold_fwd = False
    for c in core.calls(inst):
        if core.callee_name(c).endswith("create"):
            k = core.kw(c)
            fold_fwd = "fold" in k and nun(k["fold"]) == f"{dtp}.fold"
    ctx.ob("AWARE-INSTANT.fold", "DateTime.instance/fold", fold_fwd,
           f"instance() must forward fold={dtp}.fold to create() (fold-driven kinds rely on it)", dm.loc(inst))
    # locate the tzinfo branch ladder
    ladder = None
    for st in ast.walk(sf):
        if isinstance(st, ast.If) and "isinstance(obj, _datetime.tzinfo)" in un(st.test):
            ladder = st
    if ladder is None:
        ctx.unverified("AWARE-INSTANT.kinds", "_safe_timezone", "tzinfo branch not found", im.loc(sf))
        return
    node: ast.stmt | None = ladder.body[0] if ladder.body else None
    kinds = []
    while isinstance(node, ast.If):
        kinds.append((un(node.test), node.body))
        if len(node.orelse) == 1 and isinstance(node.orelse[0], ast.If):
            node = node.orelse[0]
        else:
            kinds.append(("else", node.orelse))
            node = None
    for test, body in kinds:
        src = "\n".join(un(b) for b in body)
        if "hasattr(obj, 'key')" in test:
            verdict, why = True, "zoneinfo kind: same tz rules, wall->instant driven by fold (forwarded)"
            name = "zoneinfo"
        elif "hasattr(obj, 'localize')" in test:
            name = "pytz"
            verdict = "utcoffset(" in src or "astimezone(" in src
            why = ("pytz kind: the offset is carried by the tzinfo object, not by fold; mapping the zone *name* and "
                   "re-interpreting the wall fields loses the instant in the second pass of a repeated hour")
        elif "tzname(None) == 'UTC'" in test:
            name, verdict, why = "utc-name", True, "UTC by name: offset 0, no transitions"
        elif test == "else":
            name = "other"
            verdict = "utcoffset(dt)" in src
            why = "other tzinfo kinds must consult utcoffset(dt) of the value being converted"
        else:
            ctx.unverified("AWARE-INSTANT.kinds", f"_safe_timezone/{test}", "unknown tzinfo kind branch", im.loc(sf))
            continue
        ctx.ob("AWARE-INSTANT.kinds", f"_safe_timezone/{name}", verdict, why, im.loc(body[0]) if body else im.loc(sf))


def _caller_hack(ctx) -> None:
    m = pmod("datetime")
    fn = m.func("DateTime.__add__")
    for n in core.walk_fn(fn):
        if isinstance(n, ast.Compare) and nun(n.left) == "caller" and isinstance(n.comparators[0], ast.Constant):
            name = n.comparators[0].value
            ok = m.has_func(f"DateTime.{name}") and any(
                nun(c.func) == f"super().{name}" for c in core.calls(m.func(f"DateTime.{name}"))) if m.has_func(f"DateTime.{name}") else False
            ctx.ob("FUNNEL.caller-hack", f"DateTime.__add__/caller=={name!r}", ok,
                   f"__add__ special-cases callers named {name!r}: DateTime must define that method and it must "
                   f"call super().{name} (otherwise astimezone's internal addition is routed through add())", m.loc(n))


def _safe_timezone_tabulate(ctx) -> bool | None:
    """ZONE.tabulated: `_safe_timezone` run by the checker's interpreter on one argument of every kind - a pendulum zone (handed back),
    None / 'local' (the local zone), hours as int and float of both signs (int(h * 3600) seconds), a name, zoneinfo objects (resolved by
    .key - also ZoneInfo('Etc/UTC') and 'Zulu', whose tzname() is 'UTC'), a pytz-like object (resolved by .zone, whatever its tzname()),
    datetime.timezone.utc (the UTC singleton), fixed-offset tzinfo objects without a name (their utcoffset(dt) in whole seconds; None
    counts as 0).  The calls to timezone() / local_timezone() are recorded, not run."""
    import datetime as _dt
    import zoneinfo
    from ..rules import minieval
    from ..rules.minieval import ClassStub, Stub
    im = pmod("__init__")
    fn = im.func("_safe_timezone")
    UTC = Stub(_name="UTC-singleton")
    pz = Stub(_pend="Timezone", name="Europe/Paris")
    fz = Stub(_pend="FixedTimezone", name="+02:00")

    class Pytz(_dt.tzinfo):
        zone = "America/New_York"

        def localize(self, d):
            return d

        def utcoffset(self, d):
            return _dt.timedelta(hours=-4, minutes=-56)

        def tzname(self, d):
            return "LMT"

        def dst(self, d):
            return None

    class PytzUTC(Pytz):
        zone = "Etc/UCT"

        def tzname(self, d):
            return "UTC"

    class NoOffset(_dt.tzinfo):
        def utcoffset(self, d):
            return None

        def tzname(self, d):
            return None

        def dst(self, d):
            return None
    cases = [("a pendulum Timezone", pz, ("same", pz)), ("a pendulum FixedTimezone", fz, ("same", fz)), ("None", None, ("local",)), ("'local'", "local", ("local",)),
             ("2 (hours)", 2, ("timezone", 7200)), ("-3 (hours)", -3, ("timezone", -10800)), ("5.5 (hours)", 5.5, ("timezone", 19800)), ("-9.5 (hours)", -9.5, ("timezone", -34200)), ("0", 0, ("timezone", 0)),
             ("'Europe/Paris'", "Europe/Paris", ("timezone", "Europe/Paris")), ("'UTC'", "UTC", ("timezone", "UTC")),
             ("a pytz-like zone (America/New_York, tzname 'LMT')", Pytz(), ("timezone", "America/New_York")), ("a pytz-like zone whose tzname() is 'UTC'", PytzUTC(), ("timezone", "Etc/UCT")),
             ("datetime.timezone.utc", _dt.timezone.utc, ("utc",)), ("timezone(+05:30)", _dt.timezone(_dt.timedelta(hours=5, minutes=30)), ("timezone", 19800)),
             ("timezone(-00:30, 'X')", _dt.timezone(_dt.timedelta(minutes=-30), "X"), ("timezone", -1800)), ("a tzinfo whose utcoffset() is None", NoOffset(), ("timezone", 0))]
    try:
        for key in ("Europe/Paris", "Etc/UTC", "Zulu", "UTC"):
            cases.append((f"ZoneInfo({key!r})", zoneinfo.ZoneInfo(key), ("timezone", key)))
    except Exception:       # noqa: BLE001
        pass
    bad, n = [], 0
    try:
        funcs = {st.name: st for st in im.top() if isinstance(st, ast.FunctionDef) and st.name != "timezone"}
        glob = {**minieval.module_consts(im), "Timezone": ClassStub(_new=None, _isa=lambda v: getattr(v, "_pend", None) == "Timezone"),
                "FixedTimezone": ClassStub(_new=None, _isa=lambda v: getattr(v, "_pend", None) == "FixedTimezone"),
                "_datetime": Stub(tzinfo=_dt.tzinfo, timedelta=_dt.timedelta, datetime=_dt.datetime), "UTC": UTC, "Union": None, "cast": lambda t_, v: v,
                "local_timezone": lambda: ("local",), "timezone": lambda name: ("timezone", name)}
        minieval.module_tables(im, glob, funcs)
        for label, arg, want in cases:
            n += 1
            try:
                got = minieval.call(fn, [arg], {}, {**funcs, "$globals": glob})
            except minieval.Raised as e:
                bad.append(f"{label}: raises {e.exc_name}")
                continue
            if want[0] == "same":
                ok = got is want[1]
            elif want[0] == "utc":
                ok = got is UTC or got == ("timezone", "UTC") or got == ("timezone", 0) and False
            else:
                ok = got == want and (len(want) < 2 or type(got[1]) is type(want[1]))
            if not ok:
                shown = "the UTC singleton" if got is UTC else "the argument itself" if got is arg else repr(got)
                bad.append(f"{label} -> {shown} (expected {'the argument itself' if want[0] == 'same' else 'the UTC zone' if want[0] == 'utc' else want})")
    except (core.Unsupported, KeyError, TypeError, AttributeError, IndexError, RecursionError, ValueError) as e:
        ctx.unverified("ZONE.tabulated", "_safe_timezone", f"outside the checker's interpreter: {type(e).__name__}: {e}", im.loc(fn))
        return None
    ctx.ob("ZONE.tabulated", "_safe_timezone", not bad, f"{n} kinds of argument: " + (f"wrong: {bad[:3]}" if bad else
           "each resolved as the property needs (pendulum zones unchanged, hours x 3600, names by .key / .zone before any shortcut, nameless tzinfo by its offset)"), im.loc(fn))
    if not bad:
        ctx.established(("ZONE.resolve",), "_safe_timezone", "ZONE.tabulated")
    return not bad


def _zone_resolution(ctx) -> None:
    """'reports the requested timezone': name/offset -> zone object resolution, incl. the interned fixed offsets."""
    im, tm = pmod("__init__"), pmod("tz")
    fn = im.func("timezone")
    forms = set()
    for p in cfg.paths(fn):
        ex = p.exit()
        if ex[1] == "return":
            forms.add((p.holds("isinstance(name, int)"), p.holds("name.lower() == 'utc'"), nun(ex[2].value)))
    want = {(True, None, "fixed_timezone(name)"), (False, True, "UTC"), (False, False, "Timezone(name)")}
    ctx.ob("ZONE.resolve", "pendulum.timezone", forms == want,
           f"timezone(name) resolves as {sorted(map(str, forms))}; an int is a fixed offset in seconds, 'utc' (any case) the UTC singleton, "
           f"anything else a named zone", im.loc(fn))
    fn = tm.func("fixed_timezone")
    # idiom-independent: every key the cache is consulted or filled with is the parameter itself, and the zone built is
    # FixedTimezone(<parameter>); `k in c` / `c[k]` / `c.get(k)` / `c.setdefault(k, v)` / `c[k] = v` are all read
    p = core.params(fn, drop_self=False)[0]
    keys, built, stores = [], [], 0
    for n in core.walk_fn(fn):
        if isinstance(n, ast.Compare) and len(n.ops) == 1 and isinstance(n.ops[0], (ast.In, ast.NotIn)) and nun(n.comparators[0]) == "_tz_cache":
            keys.append(n.left)
        elif isinstance(n, ast.Subscript) and nun(n.value) == "_tz_cache":
            keys.append(n.slice)
            stores += isinstance(n.ctx, ast.Store)
        elif isinstance(n, ast.Call) and isinstance(n.func, ast.Attribute) and nun(n.func.value) == "_tz_cache" and n.func.attr in ("get", "setdefault", "pop") and n.args:
            keys.append(n.args[0])
            stores += n.func.attr == "setdefault"
        elif isinstance(n, ast.Call) and nun(n.func) == "FixedTimezone":
            built.append(n)
    if not keys or not built or not stores:
        ctx.unverified("ZONE.cache", "tz.fixed_timezone", f"{len(keys)} cache accesses, {stores} stores, {len(built)} FixedTimezone(...) calls found", tm.loc(fn))
    else:
        bad_k = [nun(k) for k in keys if nun(k) != p]
        bad_b = [nun(c) for c in built if [nun(a_) for a_ in c.args] + [f"{k.arg}={nun(k.value)}" for k in c.keywords] not in ([p], [f"offset={p}"])]
        ctx.ob("ZONE.cache", "tz.fixed_timezone", not bad_k and not bad_b,
               f"cache keys {sorted({nun(k) for k in keys})}, zones built {[nun(c) for c in built]}; the interned zone must be keyed by, built "
               f"from and stored under the same `{p}` (e.g. a key of abs({p}) hands the +01:00 zone out for -01:00)", tm.loc(fn))
    sf = im.func("_safe_timezone")
    # what _safe_timezone hands back for each kind of argument, read off its leaves (pvs/sem.py): the order and the writing of the
    # tests do not matter, the outcome per kind does
    from .. import sem
    try:
        lv = sem.leaves_of(im, "_safe_timezone")
        o = core.params(sf, drop_self=False)[0]
        exits = [(c, it[2]) for c, items in lv for it in items if it[0] == "exit" and it[1] == "return"]
        if not exits:
            raise sem.Giveup("no return leaves")

        def where(**atoms):
            return [(c, v) for c, v in exits if all(c.get(a.replace("OBJ", o)) is t for a, t in atoms.items())]
        num = [(c, v) for c, v in exits if c.get(f"isinstance({o}, int)") or c.get(f"isinstance({o}, float)")]
        ctx.ob("ZONE.resolve", "_safe_timezone/hours", bool(num) and all(v == f"timezone(name=int(3600*{o}))" for _, v in num),
               f"a numeric tz argument is a number of hours, int({o} * 3600) seconds; got {sorted({v for _, v in num})}", im.loc(sf))
        own = [(c, v) for c, v in exits if c.get(f"isinstance({o}, Timezone)") or c.get(f"isinstance({o}, FixedTimezone)")]
        ctx.ob("ZONE.resolve", "_safe_timezone/passthrough", bool(own) and all(v == o for _, v in own),
               f"pendulum zones pass through unchanged; got {sorted({v for _, v in own})}", im.loc(sf))
        foreign = [(c, v) for c, v in exits if c.get(f"isinstance({o}, _datetime.tzinfo)") or c.get(f"isinstance({o}, datetime.tzinfo)") or c.get(f"isinstance({o}, tzinfo)")]
        hk, hl = f"hasattr({o}, 'key')", f"hasattr({o}, 'localize')"
        named_ok = True
        detail = []
        for c, v in foreign:
            if c.get(hk) is True:
                good = v == f"timezone(name={o}.key)"
            elif c.get(hl) is True:
                good = v == f"timezone(name={o}.zone)" and c.get(hk) is False
            else:
                # a leaf that does not go by the object's zone name must have established that it has none
                good = c.get(hk) is False and c.get(hl) is False
            if not good:
                named_ok = False
                detail.append(f"under {{{', '.join(f'{a}={t}' for a, t in sorted(c.items()) if 'hasattr' in a or 'tzname' in a)}}} returns `{v}`")
        ctx.ob("ZONE.resolve", "_safe_timezone/named", bool(foreign) and named_ok,
               "a zoneinfo (.key) or pytz (.zone) object is resolved by its zone name before any shortcut: " +
               ("; ".join(detail[:3]) + " - e.g. ZoneInfo('Etc/UTC') or 'Zulu' would be reported as 'UTC'" if detail else "every other outcome is reached only for objects without a name"),
               im.loc(sf))
        other = [v for c, v in foreign if c.get(hk) is False and c.get(hl) is False]
        ctx.ob("ZONE.resolve", "_safe_timezone/other-kind", f"timezone(name=int({o}.utcoffset(dt).total_seconds()))" in other,
               f"a foreign tzinfo without a name is mapped through its utcoffset(dt) in whole seconds; outcomes {sorted(set(other))}", im.loc(sf))
    except (sem.Giveup, RecursionError, KeyError, AttributeError, TypeError, ValueError, IndexError) as e:
        ctx.unverified("ZONE.resolve", "_safe_timezone", f"leaves not available: {e}", im.loc(sf))
    dm = pmod("datetime")
    acc = {"DateTime.get_offset": None, "DateTime.offset": "self.get_offset()", "DateTime.tz": "self.timezone",
           "DateTime.timezone_name": None, "DateTime.float_timestamp": "self.timestamp()"}
    for q, want_s in acc.items():
        if want_s is None:
            continue
        r = core.returns(dm.func(q))
        ctx.ob("ACCESSOR", q, len(r) == 1 and nun(r[0].value) == want_s, f"returns {[nun(x.value) for x in r]}; expected {want_s}", dm.rel, nontrivial=False)
    go = dm.func("DateTime.get_offset")
    forms = {(p.holds("utcoffset is None"), nun(cfg.subst_path(p, p.exit()[2].value, set()))) for p in cfg.paths(go) if p.exit()[1] == "return"}
    ctx.ob("ACCESSOR", "DateTime.get_offset", forms == {(True, "None"), (False, "int(self.utcoffset().total_seconds())")},
           f"{sorted(map(str, forms))}; the offset in seconds is int(utcoffset().total_seconds())", dm.loc(go))
    tzp = dm.func("DateTime.timezone")
    forms = {(p.holds("isinstance(self.tzinfo, (Timezone, FixedTimezone))"), nun(p.exit()[2].value)) for p in cfg.paths(tzp) if p.exit()[1] == "return"}
    ctx.ob("ACCESSOR", "DateTime.timezone", forms == {(False, "None"), (True, "self.tzinfo")}, f"{sorted(map(str, forms))}", dm.loc(tzp))
    tn = dm.func("DateTime.timezone_name")
    forms = {(p.holds("tz is None"), nun(cfg.subst_path(p, p.exit()[2].value, set()))) for p in cfg.paths(tn) if p.exit()[1] == "return"}
    ctx.ob("ACCESSOR", "DateTime.timezone_name", forms == {(True, "None"), (False, "self.timezone.name")}, f"{sorted(map(str, forms))}", dm.loc(tn))
    zm = pmod("tz.timezone")
    r = core.returns(zm.func("Timezone.name"))
    ctx.ob("ACCESSOR", "Timezone.name", len(r) == 1 and nun(r[0].value) == "self.key", f"{[nun(x.value) for x in r]}", zm.rel)
    r = core.returns(zm.func("FixedTimezone.name"))
    ctx.ob("ACCESSOR", "FixedTimezone.name", len(r) == 1 and nun(r[0].value) == "self._name", f"{[nun(x.value) for x in r]}", zm.rel)
    ctx.ob("ACCESSOR", "UTC", nun(zm.assign("UTC")) == "Timezone('UTC')", "UTC singleton is Timezone('UTC')", zm.rel)


def run(ctx) -> None:
    ctx.explanation = EXPLANATION
    bad = core.check_bases()
    if bad:
        raise core.AnchorMissing("class hierarchy changed: " + "; ".join(bad))
    ctx.step(_convert_aware, ctx, "Timezone")
    ctx.step(_convert_aware, ctx, "FixedTimezone")
    ctx.step(_in_timezone, ctx)
    from . import C02
    ctx.step(C02._funnel, ctx)        # the native astimezone() re-labels through the subclass's replace(tzinfo=...): the replace() / set() / create() funnel
    dm = pmod("datetime")
    own = ["DateTime.astimezone", "DateTime.now", "DateTime.int_timestamp", "DateTime.instance"]
    sites = recon.sites_in(dm, own) + [s for s in recon.sites_in(dm, ["DateTime.add"])
                                        if s.kind == "DT" and s.src == "dt"]
    for s in sites:
        recon.check_site(ctx, s, pendulum_receivers=())
    ctx.count("recon_sites", len(sites))
    # the final re-wrap of add's fixed branch must tag the zone it converted into
    for s in sites:
        if s.func == "DateTime.add" and s.callee == "self.__class__":
            tz = s.bound.get("tzinfo")
            ctx.ob("RECON.rewrap", "DateTime.add/final-rewrap", tz is not None and nun(tz) in ("self.tz", "dt.tzinfo", "self.tzinfo"),
                   f"tzinfo={nun(tz)}; must be the zone the value was converted into", s.loc)
    ctx.step(fixed_timezone_tabulate, ctx)
    ctx.step(_fixed_contract, ctx)
    ctx.step(_from_timestamp, ctx)
    ctx.step(_add_utc_frame, ctx)
    ctx.step(_int_timestamp, ctx)
    ctx.step(_aware_instant, ctx)
    ctx.step(_caller_hack, ctx)
    ctx.step(_safe_timezone_tabulate, ctx)
    ctx.step(_zone_resolution, ctx)
    from . import C11
    ctx.step(C11.native_tabulate, ctx, "ASTIMEZONE.tabulated", ("DateTime.astimezone",))
    ctx.expect_min("FUNNEL.aware", 2)
    ctx.expect_min("RECON.slot", 30)
    ctx.expect_min("TZINFO", 4)
    ctx.assumptions += [
        "datetime.astimezone()/zoneinfo implement the tz database (trusted, not analysed)",
        "kinds table for foreign tzinfo objects (zoneinfo: fold-driven; pytz: offset in the tzinfo object) confirmed by reading",
    ]
