"""A duration component that does not fit the compiled parser's 32-bit fields
must be reported as a parse error, never silently wrapped modulo 2**32 (e.g.
P4294967296D read as an empty duration, P4294967297D as one day).  Numbers that
do fit must keep parsing to the exact value (checked with datetime.timedelta)."""
import sys
from datetime import timedelta

import pendulum
from pendulum.parsing import parse_iso8601
from pendulum.parsing.exceptions import ParserError

compiled = type(parse_iso8601).__name__ == "builtin_function_or_method"

U32 = 2**32
UNITS = {  # designator -> (prefix, timedelta keyword)
    "W": ("P", "weeks"),
    "D": ("P", "days"),
    "H": ("PT", "hours"),
    "M": ("PT", "minutes"),
    "S": ("PT", "seconds"),
}

failed = False


def fail(msg):
    global failed
    failed = True
    print("FAIL", msg)


# 1. numbers of 2**32 and more: an error (compiled parser); in no case a wrapped value
for n in (U32, U32 + 1, U32 + 90, 10 * U32 + 5, 99999999999, 18446744073709551617):
    for unit, (prefix, kw) in UNITS.items():
        text = f"{prefix}{n}{unit}"
        try:
            got = pendulum.parse(text)
        except ParserError:
            continue
        try:
            exact = timedelta(**{kw: n})
        except OverflowError:
            exact = None
        if compiled:
            fail(f"{text}: accepted as {got!r}, expected ParserError")
        elif exact is None or got.as_timedelta() != exact:
            fail(f"{text}: parsed as {got!r}, which is not {n} {kw}")
    for unit in "YM":  # years and months (not expressible as timedelta)
        text = f"P{n}{unit}"
        try:
            got = pendulum.parse(text)
        except ParserError:
            continue
        fail(f"{text}: accepted as {got!r}, expected ParserError")

# 2. fractional component whose integral part is too large
for text, exact in (
    (f"PT{U32}.5S", timedelta(seconds=U32, microseconds=500000)),
    (f"PT{U32 + 1}.5M", timedelta(minutes=U32 + 1, seconds=30)),
    (f"PT{U32 + 2},25H", timedelta(hours=U32 + 2, minutes=15)),
):
    try:
        got = pendulum.parse(text)
    except ParserError:
        continue
    if compiled:
        fail(f"{text}: accepted as {got!r}, expected ParserError")
    elif got.as_timedelta() != exact:
        fail(f"{text}: parsed as {got!r}, which is not {exact!r}")

# 3. numbers that fit are unaffected
OK = {
    "P365D": timedelta(days=365),
    "P999999999D": timedelta(days=999999999),
    "PT4294967295S": timedelta(seconds=U32 - 1),
    "PT4294967295M": timedelta(minutes=U32 - 1),
    "PT1000000000H": timedelta(hours=10**9),
    "P0000000000000000001DT0000000000002H": timedelta(days=1, hours=2),
    "P1DT2H3M4.5S": timedelta(days=1, hours=2, minutes=3, seconds=4, microseconds=500000),
    "P1.5W": timedelta(weeks=1, days=3, hours=12),
}
for text, expected in OK.items():
    try:
        got = pendulum.parse(text)
    except ParserError as e:
        fail(f"{text}: rejected ({e}), expected {expected!r}")
        continue
    if got.as_timedelta() != expected:
        fail(f"{text}: got {got!r}, expected {expected!r}")

if failed:
    sys.exit(1)
print("ok")
