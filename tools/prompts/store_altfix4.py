import json, subprocess, os, shutil, sys
res={}
head=subprocess.run(["git","-C","/repo","rev-parse","--short","HEAD"],capture_output=True,text=True).stdout.strip()
subjects={l.split()[0]:" ".join(l.split()[1:]) for l in subprocess.run(["git","-C","/repo","log","--format=%h %s"],capture_output=True,text=True).stdout.splitlines()}
cons={}
for i in range(1,21):
    ev=json.load(open(f"/verif/evidence/C{i:02d}.json")); cons[f"C{i:02d}"]=set(ev["coverage"]["analysed"].get("modules_consulted") or [])
for c in ("0b85617","359d709","40e2e39","e2b9338"):
    g=f"/tmp/wt/J{c}"; tmp=f"/tmp/wt/hx_{c}"; shutil.rmtree(tmp,ignore_errors=True); os.makedirs(tmp)
    subprocess.run(f"git -C /repo archive HEAD | tar -x -C {tmp}",shell=True,check=True)
    subprocess.run("git init -q && git add -A >/dev/null 2>&1 && git -c user.email=a@b -c user.name=a commit -qm base",shell=True,cwd=tmp)
    r1=subprocess.run(f"git -C /repo show {c} -- src rust | patch -R -p1 -s",shell=True,cwd=tmp,capture_output=True,text=True)
    r2=subprocess.run(["git","apply",f"{g}/out/patch.diff"],cwd=tmp,capture_output=True,text=True)
    print(c,"revert",r1.returncode,r1.stdout[:200],"apply",r2.returncode,r2.stderr[:200])
    subprocess.run("git add -A",shell=True,cwd=tmp)
    patch=subprocess.run(["git","diff","--cached"],cwd=tmp,capture_output=True,text=True).stdout
    files=subprocess.run(["git","diff","--cached","--name-only"],cwd=tmp,capture_output=True,text=True).stdout.split()
    # evaluate
    alarms={}
    env=dict(os.environ, PVS_NO_EVIDENCE="1", PVS_REPO=tmp, PVS_MIR_CACHE="/verif/.cache")
    for i in range(1,21):
        p=f"C{i:02d}"
        cp=subprocess.run(["/verif/check",p,"--repo",tmp],capture_output=True,text=True,env=env,cwd="/verif")
        if cp.returncode!=0: alarms[p]=[l.strip() for l in (cp.stdout+cp.stderr).splitlines() if l.strip().startswith("rule=")][:4] or (cp.stdout+cp.stderr)[-300:]
    print(c,"alarms",alarms)
    am=json.load(open(f"{g}/out/meta.json"))
    dst=f"/verif/altfix/J{c}"; os.makedirs(dst,exist_ok=True)
    open(dst+"/patch.diff","w").write(patch); shutil.copy(f"{g}/out/demo.py",dst+"/demo.py")
    ru=[p for p,mods in cons.items() if any(f in mods for f in files) or (any(f.startswith("rust/") for f in files) and any(x.startswith("rust/") for x in mods))]
    meta={"defect_fix_reverted":c,"subject":subjects.get(c,""),"files":files,"run_under":ru,"approach":am.get("approach"),"env":am.get("env") or {},"round":4,
          "author":"independent sub-agent given a copy of the tree with one earlier fix reverted, a description of the defect (symptoms only) and the test suite - nothing from /verif; asked to repair it its own way",
          "patch":f"relative to /repo at {head}: reverts the committed fix and applies the alternative one","verified_by_author":am.get("verified"),
          "first_evaluation":"quiet" if not alarms else "false alarm(s): "+json.dumps(alarms)[:300],
          "expected":"every check stays quiet (exit 0, no VIOLATION, no ANALYSIS-ERROR); UNVERIFIED lines are acceptable"}
    json.dump(meta,open(dst+"/meta.json","w"),indent=1)
    shutil.rmtree(tmp)
