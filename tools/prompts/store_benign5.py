import json, subprocess, glob, os, shutil, tempfile
# where the first evaluation raised an alarm under another property than the one the refactoring was written for
extra = {"C02-u2":["C13","C17"],"C03-u2":["C04","C19"],"C04-u2":["C05","C11"],"C05-u2":["C19"],"C19-u2":["C05"],"C07-u2":["C17"],"C09-u1":["C04","C13","C20"],"C10-u2":["C04"],"C11-u2":["C04","C06"],
         "C14-u2":["C09"],"C16-u2":["C08"],"C17-u1":["C08"],"C11-u1":["C01","C02"],"C15-u2":["C07","C17"]}
first = {"C01-u2":"C01 UNITS.int_timestamp (fields through operator.attrgetter)","C02-u1":"C02 EXC.hierarchy (shared private base class of the two exceptions)","C02-u2":"C13 / C17 INTERVAL.assembly, INTERVAL.tz (functools.partial, keyword dict built by a helper)",
         "C03-u2":"C03 / C04 / C19 ADD.fixed-exit (tz.fromutc instead of tz.convert)","C04-u2":"C05 / C11 DIRECTION (classmethod reached through self.__class__)","C05-u2":"C05 / C19 ORDER.instant (map over a methodcaller, one final comparison)",
         "C19-u2":"C05 / C19 ORDER.instant (generator expression, one final comparison)","C07-u2":"C17 STRICT.chain (loop over (parser, exception) pairs instead of three suppress blocks)","C08-u1":"C08 TABLES.parse-arm (lookup in the table of localizable tokens)",
         "C09-u1":"C04 / C09 / C13 / C20 DIVMOD.pair, GUARD.int, INIT-COMPLETE (guard and _signature moved into helpers)","C10-u2":"C04 / C10 NEG.components (keyword dict from a class-level table)","C11-u2":"C04 / C06 / C11 SIBLING.components (keyword dict built by a static method)",
         "C14-u2":"C09 / C14 STATE-COMPLETE (state from a class-level table of accessors)","C16-u2":"C16 NAV.shape, then C08 ROUNDTRIP.tabulated OverflowError (a generator function was run eagerly, past 9999-12-31)","C17-u1":"C08 OFFSET.parse (offset block moved into a helper that returns the zone)",
         "C18-u1":"C18 INWORDS.units / INWORDS.keys (body hoisted into the base class)","C18-u2":"C18 LADDER.shape, KEY-CLOSURE (key suffixes from class-level tables)","C19-u1":"C19 RANGE.order / RANGE.bound / RANGE.pairing (functools.partial predicate, property)"}
n=0
for d in sorted(glob.glob('/tmp/wt/U[0-9][0-9]/out/[0-9]*/')):
    pid = "C"+d.split('/')[3][1:]; k=d.split('/')[5]
    bid = f"{pid}-u{k}"
    tmp = tempfile.mkdtemp(prefix="pvs-store-")
    try:
        for sub in ("src/pendulum","rust/src"):
            shutil.copytree(f"/repo/{sub}", f"{tmp}/{sub}", ignore=shutil.ignore_patterns("*.so","__pycache__"))
        subprocess.run(["git","init","-q","."],cwd=tmp); subprocess.run(["git","add","-A"],cwd=tmp); subprocess.run(["git","-c","user.email=a@b","-c","user.name=x","commit","-qm","base"],cwd=tmp)
        r = subprocess.run(["git","apply",d+"patch.diff"],capture_output=True,text=True,cwd=tmp)
        if r.returncode: print(bid,"APPLY FAILED",r.stderr[:200]); continue
        diff = subprocess.run(["git","diff"],capture_output=True,text=True,cwd=tmp).stdout
        dst=f"/verif/benign/{bid}"; os.makedirs(dst, exist_ok=True)
        open(dst+"/patch.diff","w").write(diff)
        meta = json.load(open(d+"meta.json"))
        if os.path.exists(d+"equiv.py"): shutil.copy(d+"equiv.py", dst+"/equiv.py")
        out = {"property": pid, "round": 5, "kind": meta.get("kind"), "functions": meta.get("functions"), "why_equivalent": meta.get("why_equivalent"), "env": meta.get("env") or {},
               "author": "independent sub-agent given only the property text, the earlier refactorings to avoid, and a private worktree (nothing from /verif); asked for structural behaviour-preserving refactorings with the idioms of a Python clean-up (generators, functools / operator / itertools, assignment expressions, class-level tables, helpers across function and class boundaries)",
               "verified_by_author": meta.get("verified"), "also_run_under": extra.get(bid, []), "first_evaluation": first.get(bid, "quiet"),
               "expected": "every check stays quiet (exit 0, no VIOLATION, no ANALYSIS-ERROR); UNVERIFIED lines are acceptable"}
        json.dump(out, open(dst+"/meta.json","w"), indent=1)
        n+=1
    finally:
        shutil.rmtree(tmp, ignore_errors=True)
print("stored",n)
