"""Ordinal dates (YYYY-DDD, YYYYDDD) and ISO week dates (YYYY-Www-D, YYYYWwwD)
must parse to the same calendar day as the standard library computes, for every
day of the year -- in particular the last day of each month."""
import sys
from datetime import date, timedelta

import pendulum

failures = []


def check(text, expected):
    try:
        got = pendulum.parse(text)
        got = date(got.year, got.month, got.day)
    except Exception as e:  # ParserError expected on the defective build
        got = f"{type(e).__name__}: {e}"
    if got != expected:
        failures.append(f"{text}: got {got}, expected {expected}")


for year in (1999, 2000, 2020, 2021, 2100):
    first = date(year, 1, 1)
    n_days = (date(year + 1, 1, 1) - first).days
    for ordinal in range(1, n_days + 1):
        expected = first + timedelta(days=ordinal - 1)
        check(f"{year}-{ordinal:03d}", expected)
        check(f"{year}{ordinal:03d}", expected)
        check(f"{year}-{ordinal:03d}T10:20:30", expected)

# week dates: every day of every ISO week of a few ISO years (incl. 53-week years
# and weeks reaching into the neighbouring calendar years)
for iso_year in (2015, 2020, 2021, 2024):
    last_week = date(iso_year, 12, 28).isocalendar()[1]
    for week in range(1, last_week + 1):
        for weekday in range(1, 8):
            expected = date.fromisocalendar(iso_year, week, weekday)
            check(f"{iso_year}-W{week:02d}-{weekday}", expected)
            check(f"{iso_year}W{week:02d}{weekday}", expected)

# hand-computed spot checks from the defect report
check("2021-031", date(2021, 1, 31))
check("2021-059", date(2021, 2, 28))
check("2021-365", date(2021, 12, 31))
check("2020-060", date(2020, 2, 29))
check("2020-366", date(2020, 12, 31))

if failures:
    print(f"{len(failures)} failures, e.g.")
    for line in failures[:12]:
        print("  FAIL", line)
    sys.exit(1)
print("ok")
