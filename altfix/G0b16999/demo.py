"""ISO 8601 week dates: weeks run 01..52/53 and weekdays 1..7.

Both the pure-Python parser and (when available) the compiled parser must
reject week 00 and weekday 0, and must keep agreeing with
datetime.date.fromisocalendar() for every valid week date.
"""
import datetime
import sys

from pendulum.parsing.iso8601 import parse_iso8601 as py_parse

parsers = {"python": py_parse}
try:
    from pendulum._pendulum import parse_iso8601 as rs_parse

    parsers["compiled"] = rs_parse
except ImportError:
    print("note: compiled parser not available, checking the Python one only")

failures = []


def rejected(parse, text):
    try:
        value = parse(text)
    except Exception:  # ParserError / ValueError
        return True, None
    return False, value


INVALID = [
    "2016-W00-1", "2016-W00", "2016W001", "2016W00",
    "2016-W40-0", "2016W400", "2015-W53-0", "2016-W00-0",
    "2016-W00-1T10:00:00", "2016-W40-0T10:00:00",
    # upper bounds must still hold
    "2016-W54-1", "2016-W53-1", "2016-W40-8", "2015-W54-1",
]

for name, parse in parsers.items():
    for text in INVALID:
        ok, value = rejected(parse, text)
        if not ok:
            failures.append(f"{name}: {text!r} accepted as {value!r}")

    # every valid week date of a few years (2015 and 2020 are long years)
    for year in (2012, 2015, 2016, 2018, 2020, 2021):
        last = datetime.date(year, 12, 28).isocalendar()[1]
        for week in range(1, last + 1):
            for wd in range(1, 8):
                want = datetime.date.fromisocalendar(year, week, wd)
                for text in (f"{year}-W{week:02d}-{wd}", f"{year}W{week:02d}{wd}"):
                    try:
                        got = parse(text)
                    except Exception as e:
                        failures.append(f"{name}: {text!r} raised {e!r}")
                        continue
                    if (got.year, got.month, got.day) != (want.year, want.month, want.day):
                        failures.append(f"{name}: {text!r} -> {got!r}, expected {want}")
            want = datetime.date.fromisocalendar(year, week, 1)
            got = parse(f"{year}-W{week:02d}")
            if (got.year, got.month, got.day) != (want.year, want.month, want.day):
                failures.append(f"{name}: {year}-W{week:02d} -> {got!r}, expected {want}")

for f in failures[:40]:
    print("FAIL", f)
print("failures:", len(failures))
sys.exit(1 if failures else 0)
