"""first_of()/last_of()/nth_of() must land on the actual start of the wanted
day, also when that day's midnight is skipped by a DST transition (resolved
forward), and start_of() must still pick the first occurrence of a repeated
start.  Expected values are computed with the standard library (zoneinfo)."""
import calendar
import datetime as dt
import sys

from zoneinfo import ZoneInfo

import pendulum

UTC = dt.timezone.utc
failures = []


def start_of_day(zone, y, m, d):
    """First instant of local date y-m-d in zone -> (wall fields, utc offset)."""
    z = ZoneInfo(zone)
    midnight = dt.datetime(y, m, d, tzinfo=z)
    off0 = midnight.replace(fold=0).utcoffset()
    off1 = midnight.replace(fold=1).utcoffset()
    if off0 < off1:
        # skipped midnight (PEP 495 gap): the day starts after the gap
        inst = (midnight.replace(tzinfo=None) - off0).replace(tzinfo=UTC)
        return inst.astimezone(z)
    # regular, or repeated: first occurrence
    return midnight.replace(fold=0)


def same(got, want, label):
    if callable(got):
        try:
            got = got()
        except Exception as e:  # e.g. "Unable to find occurrence"
            failures.append(f"{label}: raised {e!r}, expected {want.isoformat()}")
            return
    got_fields = (got.year, got.month, got.day, got.hour, got.minute, got.second)
    want_fields = (want.year, want.month, want.day, want.hour, want.minute, want.second)
    if got_fields != want_fields or got.utcoffset() != want.utcoffset():
        failures.append(f"{label}: got {got.isoformat()}, expected {want.isoformat()}")


# --- the reported case, hand-computed: DST starts in Sao Paulo on Sunday
# 2018-11-04 at 00:00 -> 01:00 (-03:00 -> -02:00)
d = pendulum.datetime(2018, 11, 15, 12, tz="America/Sao_Paulo")
for label, got in (
    ("first_of", d.first_of("month", pendulum.SUNDAY)),
    ("nth_of 1", d.nth_of("month", 1, pendulum.SUNDAY)),
    ("first_of quarter->nov", pendulum.datetime(2018, 11, 1, tz="America/Sao_Paulo").first_of("month", pendulum.SUNDAY)),
):
    if got.isoformat() != "2018-11-04T01:00:00-02:00":
        failures.append(f"Sao_Paulo {label}: {got.isoformat()} != 2018-11-04T01:00:00-02:00")

# --- systematic comparison with zoneinfo in zones whose DST starts at midnight
ZONES = ["America/Sao_Paulo", "America/Havana", "Asia/Beirut", "America/Asuncion",
         "America/Santiago", "Asia/Amman", "Europe/Paris", "Atlantic/Azores"]
for zone in ZONES:
    for year in (2012, 2016, 2018, 2019):
        for month in range(1, 13):
            base = pendulum.datetime(year, month, 15, 12, 30, tz=zone)
            weeks = calendar.monthcalendar(year, month)
            for wd in range(7):  # 0 = Monday, like pendulum.WeekDay
                days = [w[wd] for w in weeks if w[wd]]
                want = start_of_day(zone, year, month, days[0])
                same(lambda: base.first_of("month", pendulum.WeekDay(wd)), want,
                     f"{zone} {year}-{month:02d} first_of({wd})")
                want = start_of_day(zone, year, month, days[-1])
                same(lambda: base.last_of("month", pendulum.WeekDay(wd)), want,
                     f"{zone} {year}-{month:02d} last_of({wd})")
                for n, day in enumerate(days, 1):
                    want = start_of_day(zone, year, month, day)
                    same(lambda: base.nth_of("month", n, pendulum.WeekDay(wd)), want,
                         f"{zone} {year}-{month:02d} nth_of({n},{wd})")
            # start_of('day') on every day of the month, either fold
            for day in range(1, calendar.monthrange(year, month)[1] + 1):
                want = start_of_day(zone, year, month, day)
                for fold in (0, 1):
                    got = pendulum.datetime(year, month, day, 12, tz=zone, fold=fold).start_of("day")
                    same(got, want, f"{zone} {year}-{month:02d}-{day:02d} start_of(day) fold={fold}")

# --- a repeated start keeps designating its first occurrence:
# Havana 2018-11-04 01:00 CDT(-04:00) -> 00:00 CST(-05:00): midnight occurs twice
for fold in (0, 1):
    got = pendulum.datetime(2018, 11, 4, 0, 30, tz="America/Havana", fold=fold).start_of("day")
    if got.isoformat() != "2018-11-04T00:00:00-04:00" or got.fold != 0:
        failures.append(f"Havana repeated midnight fold={fold}: {got.isoformat()} fold={got.fold}")

for f in failures[:25]:
    print("FAIL", f)
print("failures:", len(failures))
sys.exit(1 if failures else 0)
