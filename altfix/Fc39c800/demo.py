"""Duration + / - / * int must agree with the native timedelta to the microsecond,
also for durations longer than 2**53 microseconds (~285 years)."""
import random
import sys
from datetime import timedelta

from pendulum import Duration

US = timedelta(microseconds=1)


def usec(d):
    # exact length through the slots of the base class
    return (
        timedelta.days.__get__(d) * 86400 + timedelta.seconds.__get__(d)
    ) * 10**6 + timedelta.microseconds.__get__(d)


bad = []


def check(label, got, want):
    if not isinstance(got, Duration):
        bad.append(f"{label}: result is {type(got).__name__}, not a Duration")
    elif usec(got) != usec(want):
        bad.append(f"{label}: got {usec(got)} us, expected {usec(want)} us")
    else:
        # the public breakdown must describe the same length
        total = (got.years * 365 + got.months * 30 + got.weeks * 7 + got.remaining_days) * 86400
        total = (total + got.hours * 3600 + got.minutes * 60 + got.remaining_seconds) * 10**6
        total += got.microseconds
        if total != usec(want):
            bad.append(f"{label}: breakdown gives {total} us, expected {usec(want)} us")


# the example of the report (hand-computed): 548050 d 7.630001 s + 1.000003 s
a = Duration(days=548050, seconds=7, microseconds=630001)
r = a + timedelta(seconds=1, microseconds=3)
if (r.weeks, r.remaining_days, r.seconds, r.microseconds) != (78292, 6, 8, 630004):
    bad.append(f"example: {r!r}")

rng = random.Random(20261004)
for i in range(3000):
    kw = dict(
        days=rng.randint(-900000, 900000),
        seconds=rng.randint(0, 86399),
        microseconds=rng.randint(0, 999999),
    )
    okw = dict(
        days=rng.choice([0, 0, rng.randint(-400000, 400000)]),
        seconds=rng.randint(-86399, 86399),
        microseconds=rng.randint(-999999, 999999),
    )
    d, n = Duration(**kw), timedelta(**kw)
    o = timedelta(**okw)
    check(f"{kw} + {okw}", d + o, n + o)
    check(f"{okw} + {kw} (radd)", o + d, o + n)
    check(f"{kw} - {okw}", d - o, n - o)
    check(f"{kw} + Duration({okw})", d + Duration(**okw), n + o)
    check(f"{kw} - Duration({okw})", d - Duration(**okw), n - o)
    k = rng.randint(-7, 7)
    check(f"{kw} * {k}", d * k, n * k)
    check(f"{k} * {kw}", k * d, k * n)

# years and months are scaled as such and count 365 / 30 days
y = Duration(years=301, months=5, days=3, seconds=7, microseconds=630001)
check("years * 3", y * 3, timedelta(days=(301 * 365 + 5 * 30 + 3), seconds=7, microseconds=630001) * 3)
if ((y * 3).years, (y * 3).months) != (903, 15):
    bad.append(f"years/months not scaled: {y * 3!r}")
check("years + us", y + US, timedelta(days=301 * 365 + 5 * 30 + 3, seconds=7, microseconds=630002))

if bad:
    print(f"{len(bad)} mismatches, e.g.:")
    for b in bad[:8]:
        print("  ", b)
    sys.exit(1)
print("ok: Duration +, -, * int exact to the microsecond")
