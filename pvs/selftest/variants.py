"""Seeded one-site variants (id, property, file, old, new, expected rule | None[, count])."""
DT = "src/pendulum/datetime.py"
TZ = "src/pendulum/tz/timezone.py"
INIT = "src/pendulum/__init__.py"

VARIANTS = [
    ("C01-clean", "C01", None, "", "", None),
    ("C01-astz-replace", "C01", TZ, "return cast(_DT, dt.astimezone(self))\n\n    def datetime(\n        self,\n        year: int,\n        month: int,\n        day: int,\n        hour: int = 0,\n        minute: int = 0,\n        second: int = 0,\n        microsecond: int = 0,\n    ) -> _datetime.datetime:\n        \"\"\"",
     "return cast(_DT, dt.replace(tzinfo=self))\n\n    def datetime(\n        self,\n        year: int,\n        month: int,\n        day: int,\n        hour: int = 0,\n        minute: int = 0,\n        second: int = 0,\n        microsecond: int = 0,\n    ) -> _datetime.datetime:\n        \"\"\"", "FUNNEL.aware"),
    ("C01-astimezone-dropfold", "C01", DT, "            fold=dt.fold,\n            tzinfo=dt.tzinfo,\n", "            tzinfo=dt.tzinfo,\n", "RECON.state"),
    ("C01-fromutc-sub", "C01", TZ, "_datetime.datetime.__add__(dt, self._utcoffset)", "_datetime.datetime.__sub__(dt, self._utcoffset)", "TZINFO.fromutc"),
    ("C01-add-plus-offset", "C01", DT, "current_dt = current_dt - offset", "current_dt = current_dt + offset", "OFFSET.add-utc-frame"),
    ("C01-secs-per-hour", "C01", DT, "return delta.days * SECONDS_PER_DAY + delta.seconds", "return delta.days * SECONDS_PER_MINUTE * MINUTES_PER_HOUR + delta.seconds", "UNITS.int_timestamp"),
    ("C01-in_tz-noforward", "C01", DT, "        return self.in_timezone(tz)\n", "        return self.replace(tzinfo=pendulum._safe_timezone(tz))\n", "FUNNEL.forward"),
    ("C01-in_timezone-swap-min-sec", "C01", DT, "            dt.minute,\n            dt.second,\n            dt.microsecond,\n            fold=dt.fold,\n            tzinfo=dt.tzinfo,", "            dt.second,\n            dt.minute,\n            dt.microsecond,\n            fold=dt.fold,\n            tzinfo=dt.tzinfo,", "RECON.slot"),
    ("C01-instance-no-astz", "C01", DT, "            dt = dt.astimezone(tz)\n\n        return cls.create(", "            pass\n\n        return cls.create(", "AWARE-INSTANT.kinds"),
    ("C01-from_timestamp-local", "C01", INIT, "dt = _datetime.datetime.utcfromtimestamp(timestamp)", "dt = _datetime.datetime.fromtimestamp(timestamp)", "OFFSET.from_timestamp"),
    ("C01-dst-nonzero", "C01", TZ, "        return _datetime.timedelta()\n", "        return self._utcoffset\n", "TZINFO.dst"),
    ("C01-utcoffset-minutes", "C01", TZ, "self._utcoffset = _datetime.timedelta(seconds=offset)", "self._utcoffset = _datetime.timedelta(minutes=offset)", "TZINFO.utcoffset"),
]

VARIANTS += [
    ("C02-clean", "C02", None, "", "", None),
    ("C02-gt-ge", "C02", TZ, "if offset_after > offset_before:", "if offset_after >= offset_before:", "ABSCASE.case"),
    ("C02-swap-arms", "C02", TZ, "                        (offset_after - offset_before)\n                        if dt.fold\n                        else (offset_before - offset_after)", "                        (offset_before - offset_after)\n                        if dt.fold\n                        else (offset_after - offset_before)", "ABSCASE.case"),
    ("C02-fold-default-0", "C02", DT, "        fold: int = 1,\n        raise_on_unknown_times: bool = False,\n    ) -> Self:", "        fold: int = 0,\n        raise_on_unknown_times: bool = False,\n    ) -> Self:", "DEFAULTS.fold"),
    ("C02-set-no-fold", "C02", DT, "year, month, day, hour, minute, second, microsecond, tz=tz, fold=self.fold\n", "year, month, day, hour, minute, second, microsecond, tz=tz\n", "FUNNEL.fold"),
    ("C02-datetime-drop-raise", "C02", INIT, "        fold=fold,\n        raise_on_unknown_times=raise_on_unknown_times,\n", "        fold=fold,\n", "FUNNEL.forward"),
    ("C02-same-fold-query", "C02", TZ, "(self.utcoffset(dt) if dt.fold else self.utcoffset(dt.replace(fold=1))),", "(self.utcoffset(dt) if dt.fold else self.utcoffset(dt.replace(fold=0))),", "ABSCASE.queries"),
    ("C02-ambiguous-elif-drop-raise-flag", "C02", TZ, "elif offset_before > offset_after and raise_on_unknown_times:", "elif offset_before > offset_after:", "ABSCASE.case"),
    ("C02-raise-wrong-exc", "C02", TZ, "                    raise NonExistingTime(dt)", "                    raise AmbiguousTime(dt)", "ABSCASE.case"),
    ("C02-tzdatetime-fold0", "C02", TZ, "year, month, day, hour, minute, second, microsecond, fold=1\n            )\n        )\n\n    def __repr__", "year, month, day, hour, minute, second, microsecond, fold=0\n            )\n        )\n\n    def __repr__", "FUNNEL.fold-default"),
    ("C02-create-no-raise-forward", "C02", DT, "dt = tz.convert(dt, raise_on_unknown_times=raise_on_unknown_times)", "dt = tz.convert(dt)", "FUNNEL.create"),
    ("C02-create-dropfold", "C02", DT, "            year, month, day, hour, minute, second, microsecond, fold=fold\n", "            year, month, day, hour, minute, second, microsecond\n", "FUNNEL.create"),
    ("C02-replace-fold-self", "C02", DT, "        if fold is None:\n            fold = self.fold\n", "        if fold is None:\n            fold = 1\n", "FUNNEL.fold"),
    ("C02-at-swap", "C02", DT, "hour=hour, minute=minute, second=second, microsecond=microsecond\n        )\n\n    def in_timezone", "hour=hour, minute=second, second=minute, microsecond=microsecond\n        )\n\n    def in_timezone", "FUNNEL.forward"),
    ("C02-fixed-convert-swap", "C02", TZ, "                dt.minute,\n                dt.second,\n", "                dt.second,\n                dt.minute,\n", "RECON.slot"),
    ("C02-refactor-equivalent", "C02", TZ, "if offset_after > offset_before:", "if offset_before < offset_after:", None),
]

HELP = "src/pendulum/helpers.py"
VARIANTS += [
    ("C03-clean", "C03", None, "", "", None),
    ("C03-days-not-variable", "C03", DT, "units_of_variable_length = any([years, months, weeks, days])", "units_of_variable_length = any([years, months, weeks])", "ADD.classify"),
    ("C03-plus-offset", "C03", DT, "current_dt = current_dt - offset", "current_dt = current_dt + offset", "ADD.fixed-exit"),
    ("C03-utc-tagged-selftz", "C03", DT, "            dt.microsecond,\n            tzinfo=UTC,\n        )", "            dt.microsecond,\n            tzinfo=self.tz,\n        )", "ADD.fixed-exit"),
    ("C03-subtract-not-negated", "C03", DT, "            minutes=-minutes,\n            seconds=-seconds,", "            minutes=-minutes,\n            seconds=seconds,", "NEGSYM"),
    ("C03-divmod-100000", "C03", HELP, "div, mod = divmod(microseconds * s, 1000000)", "div, mod = divmod(microseconds * s, 100000)", "UNITS.carry"),
    ("C03-carry-wrong-target", "C03", HELP, "        minutes = mod * s\n        hours += div * s", "        minutes = mod * s\n        days += div * s", "UNITS.carry"),
    ("C03-sub-timedelta-days", "C03", DT, "        return self.subtract(seconds=delta.total_seconds())", "        return self.subtract(seconds=delta.seconds)", "TDARM.plain"),
    ("C03-add-duration-drop-us", "C03", DT, "            seconds=seconds,\n            microseconds=microseconds,\n        )\n\n        if units_of_variable_length or self.tz is None:", "            seconds=seconds,\n        )\n\n        if units_of_variable_length or self.tz is None:", "ADD.forward"),
    ("C03-final-fold-drop", "C03", DT, "            tzinfo=self.tz,\n            fold=dt.fold,\n        )\n\n    def subtract", "            tzinfo=self.tz,\n        )\n\n    def subtract", "RECON.state"),
    ("C03-guard-and", "C03", DT, "if units_of_variable_length or self.tz is None:", "if units_of_variable_length and self.tz is None:", "ADD."),
    # exactly 24 hours are then left to the final `dt + timedelta(hours=24)`, which adds the same day: behaviour-preserving (found by ADD.tabulated)
    ("C03-hours-threshold-benign", "C03", HELP, "    if abs(hours) > 23:", "    if abs(hours) > 24:", None),
    ("C03-hours-radix", "C03", HELP, "        div, mod = divmod(hours * s, 24)", "        div, mod = divmod(hours * s, 25)", "ADD.tabulated"),
    ("C03-timedelta-swap", "C03", HELP, "        minutes=minutes,\n        seconds=seconds,\n        microseconds=microseconds,\n    )", "        minutes=seconds,\n        seconds=minutes,\n        microseconds=microseconds,\n    )", "UNITS.carry"),
    ("C03-sub-route", "C03", DT, "            return self._subtract_timedelta(other)", "            return self._add_timedelta_(other)", "DUNDER.route"),
]

DATE = "src/pendulum/date.py"
DUR = "src/pendulum/duration.py"
VARIANTS += [
    ("C04-clean", "C04", None, "", "", None),
    ("C04-clamp-before-overflow", "C04", HELP, [("    day = min(DAYS_PER_MONTHS[int(is_leap(year))][month], dt.day)\n", ""), ("    year = dt.year + years\n    month = dt.month\n", "    year = dt.year + years\n    month = dt.month\n    day = min(DAYS_PER_MONTHS[int(is_leap(year))][month], dt.day)\n")], None, "ORDER.clamp"),
    ("C04-clamp-old-year", "C04", HELP, "day = min(DAYS_PER_MONTHS[int(is_leap(year))][month], dt.day)", "day = min(DAYS_PER_MONTHS[int(is_leap(dt.year))][month], dt.day)", "ORDER.clamp"),
    ("C04-wrap-year-missing", "C04", HELP, "        elif month < 1:\n            year -= 1\n            month += 12", "        elif month < 1:\n            month += 12", "ORDER.clamp"),
    ("C04-weeks-6", "C04", HELP, "days += weeks * 7", "days += weeks * 6", "UNITS.carry"),
    ("C04-date-sub-noneg", "C04", DATE, "return self.add(years=-years, months=-months, weeks=-weeks, days=-days)", "return self.add(years=-years, months=-months, weeks=weeks, days=-days)", "NEGSYM"),
    ("C04-sub-duration-elapsed", "C04", DT, "            return self.subtract(**delta._signature)  # type: ignore[attr-defined]", "            return self.subtract(years=delta.years, months=delta.months, seconds=delta._total)", "SIBLING.arms"),
    ("C04-date-sub-drop-weeks", "C04", DATE, "            return self.subtract(\n                years=delta.years,\n                months=delta.months,\n                weeks=delta.weeks,\n", "            return self.subtract(\n                years=delta.years,\n                months=delta.months,\n", "SIBLING.arms"),
    ("C04-interval-arm-days", "C04", DT, "                days=delta.remaining_days,\n                hours=delta.hours,\n                minutes=delta.minutes,\n                seconds=delta.remaining_seconds,\n                microseconds=delta.microseconds,\n            )\n        elif isinstance(delta, pendulum.Duration):\n            return self.add(", "                days=delta.days,\n                hours=delta.hours,\n                minutes=delta.minutes,\n                seconds=delta.remaining_seconds,\n                microseconds=delta.microseconds,\n            )\n        elif isinstance(delta, pendulum.Duration):\n            return self.add(", "SIBLING."),
    ("C04-neg-drop-weeks", "C04", DUR, "            weeks=-self._weeks,\n", "", "NEG.components"),
    ("C04-neg-months-sign", "C04", DUR, "            months=-self._months,\n            weeks=-self._weeks,", "            months=self._months,\n            weeks=-self._weeks,", "NEG.components"),
    ("C04-signature-ms", "C04", DUR, '"microseconds": microseconds + milliseconds * 1000,', '"microseconds": microseconds + milliseconds * 100,', "SIGNATURE"),
    ("C04-signature-swap", "C04", DUR, '            "hours": hours,\n            "minutes": minutes,\n            "seconds": seconds,\n            "microseconds": microseconds +', '            "hours": minutes,\n            "minutes": hours,\n            "seconds": seconds,\n            "microseconds": microseconds +', "SIGNATURE"),
    ("C04-absduration-nosig", "C04", DUR, "        self._signature = {  # type: ignore[attr-defined]\n            \"years\": self._years,", "        self._sig = {  # type: ignore[attr-defined]\n            \"years\": self._years,", "INIT-COMPLETE"),
    ("C04-calendar-tz-drop", "C04", DT, "                dt.microsecond,\n                tz=self.tz,\n            )", "                dt.microsecond,\n            )", "ADD.calendar-exit"),
    ("C04-replace-before", "C04", HELP, "    dt = dt.replace(year=year, month=month, day=day)\n\n    return dt + timedelta(", "    dt = dt.replace(year=year, month=month, day=dt.day)\n\n    return dt + timedelta(", "ORDER.clamp"),
]

IV = "src/pendulum/interval.py"
VARIANTS += [
    ("C05-clean", "C05", None, "", "", None),
    ("C05-sub-swapped", "C05", DT, "        return other.diff(self, False)\n\n    def __rsub__", "        return self.diff(other, False)\n\n    def __rsub__", "DIRECTION"),
    ("C05-rsub-swapped", "C05", DT, "        return self.diff(other, False)\n\n    def __add__", "        return other.diff(self, False)\n\n    def __add__", "DIRECTION"),
    ("C05-diff-swapped", "C05", DT, "return Interval(self, dt, absolute=abs)", "return Interval(dt, self, absolute=abs)", "DIRECTION"),
    ("C05-date-sub-swapped", "C05", DATE, "        return dt.diff(self, False)", "        return self.diff(dt, False)", "DIRECTION"),
    ("C05-end-fold-dropped", "C05", IV, "                    tzinfo=end.tzinfo,\n                    fold=end.fold,\n", "                    tzinfo=end.tzinfo,\n", "FLOW.delta"),
    ("C05-cross-offset", "C05", IV, "offset = cast(timedelta, cast(datetime, start).utcoffset())", "offset = cast(timedelta, cast(datetime, end).utcoffset())", "FLOW.delta"),
    ("C05-plus-offset", "C05", IV, "_end = cast(_T, (_end - offset).replace(tzinfo=None))", "_end = cast(_T, (_end + offset).replace(tzinfo=None))", "FLOW.delta"),
    ("C05-delta-reversed", "C05", IV, "delta: timedelta = _end - _start", "delta: timedelta = _start - _end", "FLOW.delta"),
    # removing each endpoint's own offset by hand is right for any pair; the guard only has to include the same-object case, which `==` does:
    # behaviour-preserving (LENGTH.tabulated evaluates it so, with two distinct but equal fixed-offset tzinfo objects among the pairs)
    ("C05-guard-eq-benign", "C05", IV, "and _start.tzinfo is _end.tzinfo", "and _start.tzinfo == _end.tzinfo", None),
    ("C05-guard-never", "C05", IV, "and _start.tzinfo is _end.tzinfo", "and _start.tzinfo is None", "LENGTH.tabulated"),
    ("C05-in-hours-round", "C05", DUR, "        return int(self.total_hours())", "        return round(self.total_hours())", "TRUNC.in"),
    ("C05-total-days-hour", "C05", DUR, "        return self.total_seconds() / SECONDS_PER_DAY", "        return self.total_seconds() / SECONDS_PER_HOUR", "UNITS.total"),
    ("C05-swap-ge", "C05", IV, "        if absolute and _is_after(start, end):\n            end, start = start, end\n\n        _start = start", "        if absolute and _is_after(end, start):\n            end, start = start, end\n\n        _start = start", "FLOW.swap"),
    ("C05-native-order", "C05", IV, "        if absolute and _is_after(start, end):\n", "        if absolute and start > end:\n", "ORDER.instant"),
    ("C05-init-native-order", "C05", IV, "        if _is_after(start, end):\n            self._invert = True", "        if start > end:\n            self._invert = True", "ORDER.instant"),
    ("C05-seconds-days", "C05", IV, "            days=delta.days,\n            seconds=delta.seconds,", "            seconds=delta.seconds,", "LENGTH.tabulated"),
    ("C05-float-seconds-ok", "C05", IV, "        return super().__new__(\n            cls,\n            days=delta.days,\n            seconds=delta.seconds,\n            microseconds=delta.microseconds,\n        )", "        return super().__new__(cls, seconds=delta.total_seconds())", None),
    ("C06-float-seconds", "C06", IV, "        return super().__new__(\n            cls,\n            days=delta.days,\n            seconds=delta.seconds,\n            microseconds=delta.microseconds,\n        )", "        return super().__new__(cls, seconds=delta.total_seconds())", "LENGTH.exact"),
    ("C05-abs-false", "C05", IV, "return self.__class__(self.start, self.end, absolute=True)", "return self.__class__(self.start, self.end, absolute=False)", "ABS"),
    ("C05-naive-min-sec-swap", "C05", DT, "                    other.minute,\n                    other.second,\n                    other.microsecond,\n                )\n            else:\n                other = self.instance(other)\n\n        return other.diff(self, False)", "                    other.second,\n                    other.minute,\n                    other.microsecond,\n                )\n            else:\n                other = self.instance(other)\n\n        return other.diff(self, False)", "RECON.slot"),
]

PYH = "src/pendulum/_helpers.py"
RSH = "rust/src/python/helpers.rs"
VARIANTS += [
    ("C06-clean", "C06", None, "", "", None),
    ("C06-py-radix", "C06", PYH, "        if min_diff < 0:\n            min_diff += 60", "        if min_diff < 0:\n            min_diff += 24", "BORROW.chain"),
    ("C06-py-borrow-target", "C06", PYH, "            sec_diff += 60\n            min_diff -= 1", "            sec_diff += 60\n            hour_diff -= 1", "BORROW.chain"),
    ("C06-py-le", "C06", PYH, "        if hour_diff < 0:", "        if hour_diff <= 0:", "BORROW."),
    ("C06-py-month-arm", "C06", PYH, "            d_diff = 0\n            m_diff += 1", "            d_diff = 0\n            m_diff += 2", "MONTHBRANCH.agree"),
    ("C06-py-month-cmp", "C06", PYH, "if d_diff < days_in_month - days_in_last_month:", "if d_diff <= days_in_month - days_in_last_month:", "MONTHBRANCH.agree"),
    ("C06-py-sign-missing", "C06", PYH, "        sign * mic_diff,", "        mic_diff,", "SIGN.outputs"),
    ("C06-py-out-swap", "C06", PYH, "        sign * min_diff,\n        sign * sec_diff,", "        sign * sec_diff,\n        sign * min_diff,", "SIGN.outputs"),
    ("C06-rs-radix", "C06", RSH, "    if hour_diff < 0 {\n        hour_diff += 24;", "    if hour_diff < 0 {\n        hour_diff += 12;", "BORROW.chain"),
    ("C06-rs-exact-type", "C06", RSH, "is_datetime: PyDateTime::is_type_of_bound(dt2),", "is_datetime: PyDateTime::is_exact_type_of_bound(dt2),", "SYMMETRY.descriptor"),
    ("C06-rs-month-arm", "C06", RSH, "            _ => {\n                // We have a full month\n                day_diff += days_in_last_month;", "            _ => {\n                // We have a full month\n                day_diff += days_in_month;", "MONTHBRANCH.agree"),
    ("C06-rs-asym-offset", "C06", RSH, "            if dtinfo2.hour < 0 {\n                dtinfo2.hour += 24;", "            if dtinfo2.hour < 0 {\n                dtinfo2.hour += 25;", "SYMMETRY.offset"),
    ("C06-rs-sign", "C06", RSH, "        seconds: second_diff * sign,", "        seconds: second_diff,", "SIGN.outputs"),
    ("C06-in-months", "C06", IV, "return self.years * MONTHS_PER_YEAR + self.months", "return self.years * MONTHS_PER_YEAR + self.months + 1", "INTERVAL.props"),
    ("C06-neg-noswap", "C06", IV, "return self.__class__(self.end, self.start, self._absolute)", "return self.__class__(self.start, self.end, self._absolute)", "INTERVAL.neg"),
    ("C06-delta-swapped", "C06", IV, "precise_diff(_start, _end)", "precise_diff(_end, _start)", "INTERVAL.delta"),
    ("C06-backend-missing", "C06", HELP, "    from pendulum._helpers import week_day\n", "    week_day = None\n", "BACKEND.names"),
]

ISO = "src/pendulum/parsing/iso8601.py"
RSP = "rust/src/parsing.rs"
RSHH = "rust/src/helpers.rs"
FMT = "src/pendulum/formatting/formatter.py"
PARSER = "src/pendulum/parser.py"
PARSING = "src/pendulum/parsing/__init__.py"
VARIANTS += [
    ("C07-clean", "C07", None, "", "", None),
    ("C07-py-strict", "C07", ISO, "if ordinal <= months_offsets[i]:", "if ordinal < months_offsets[i]:", "CUMSEARCH.forward"),
    ("C07-py-day-offset", "C07", ISO, "day = ordinal - months_offsets[i - 1]", "day = ordinal - months_offsets[i]", "CUMSEARCH.forward"),
    ("C07-rs-strict", "C07", RSP, "if ord <= MONTHS_OFFSETS[leap][i] {", "if ord < MONTHS_OFFSETS[leap][i] {", "CUMSEARCH.forward"),
    ("C07-rs-month", "C07", RSP, "let month = (i - 1) as u32;", "let month = i as u32;", "CUMSEARCH.forward"),
    ("C07-py-local-ge", "C07", PYH, "        if day > month_offset:", "        if day >= month_offset:", "CUMSEARCH.backward"),
    ("C07-rs-local-ge", "C07", RSHH, "        if day > month_offset {", "        if day >= month_offset {", "CUMSEARCH.backward"),
    ("C07-py-week-formula", "C07", ISO, "ordinal = week * 7 + weekday - (week_day(year, 1, 4) + 3)", "ordinal = week * 7 + weekday - (week_day(year, 1, 4) + 4)", "WEEKDATE.formula"),
    ("C07-rs-week-formula", "C07", RSP, "(week_day(iso_year as i32, 1, 4) as i32 + 3)", "(week_day(iso_year as i32, 1, 3) as i32 + 3)", "WEEKDATE.formula"),
    ("C07-py-week-guard", "C07", ISO, "    if weekday < 1 or weekday > 7:", "    if weekday < 1 or weekday > 8:", "WEEKDATE.guards"),
    ("C07-py-week-zero", "C07", ISO, "    if week < 1 or week > 53 or week > 52 and not is_long_year(year):", "    if week > 53 or week > 52 and not is_long_year(year):", "PYISO.tabulated"),
    ("C07-rs-weekday-zero", "C07", RSP, "        if iso_day < 1 || iso_day > 7 {", "        if iso_day > 7 {", "WEEKDATE.guards"),
    ("C07-rs-week-guard", "C07", RSP, "if iso_week < 1 || iso_week > 53 || iso_week > 52 && !is_long_year(iso_year as i32) {", "if iso_week < 1 || iso_week > 53 {", "WEEKDATE.guards"),
    ("C07-py-wrap", "C07", ISO, "        ordinal += days_in_year(year - 1)\n", "        ordinal += days_in_year(year)\n", "WEEKDATE.wrap"),
    ("C07-rs-wrap", "C07", RSP, "            ord -= days_in_year(y as i32) as i32;\n            y += 1;", "            ord -= days_in_year(y as i32) as i32;", "WEEKDATE.wrap"),
    ("C07-py-fraction-pad", "C07", ISO, 'microsecond = int(f"{subsecond:0<6}")', 'microsecond = int(f"{subsecond:0>6}")', "FRACTION"),
    ("C07-rs-fraction-7", "C07", RSP, "                        // Expand missing microsecond\n                        while i < 6 {\n                            datetime.microsecond *= 10;\n                            i += 1;\n                        }\n                    }\n\n                    if datetime.has_date && !datetime.extended_date_format", "                        // Expand missing microsecond\n                        while i < 5 {\n                            datetime.microsecond *= 10;\n                            i += 1;\n                        }\n                    }\n\n                    if datetime.has_date && !datetime.extended_date_format", "FRACTION"),
    ("C07-py-offset-sign", "C07", ISO, '            negative = bool(tz.startswith("-"))', '            negative = bool(tz.startswith("+"))', "OFFSET.parse"),
    ("C07-fmt-offset-clone", "C07", FMT, "            offset = ((int(off_hour) * 60) + int(off_minute)) * 60", "            offset = ((int(off_hour) * 60) + int(off_minute)) * 6", "OFFSET.parse"),
    ("C07-rs-tz-utcoffset-abs", "C07", "rust/src/python/types/timezone.rs", "PyDelta::new_bound(py, 0, self.offset, 0, true)", "PyDelta::new_bound(py, 0, self.offset.abs(), 0, true)", "RSISO.tabulated"),
    ("C07-rs-T-extended", "C07", RSP, "                    if datetime.has_date && !datetime.extended_date_format {", "                    if !datetime.extended_date_format {", "RSISO.tabulated"),
    ("C07-rs-offset", "C07", RSP, "            tzminute += tzhour * 60;", "            tzminute += tzhour * 6;", "OFFSET.parse"),
    ("C07-rs-offset-sign", "C07", RSP, "let tzsign = if self.current == '+' { 1 } else { -1 };", "let tzsign = if self.current == '-' { 1 } else { -1 };", "OFFSET.parse"),
    ("C07-parser-swap", "C07", PARSER, "            parsed.minute,\n            parsed.second,\n            parsed.microsecond,\n            tz=parsed.tzinfo", "            parsed.second,\n            parsed.minute,\n            parsed.microsecond,\n            tz=parsed.tzinfo", "RECON.slot"),
    ("C07-normalize-date", "C07", PARSING, "        return datetime(parsed.year, parsed.month, parsed.day)", "        return datetime(parsed.year, parsed.day, parsed.month)", "RECON.slot"),
    ("C07-exact", "C07", PARSING, '    if options.get("exact"):\n        return parsed\n', '    if options.get("exact") and False:\n        return parsed\n', "EXACT"),
]

CONST = "src/pendulum/constants.py"
VARIANTS += [
    ("C08-clean", "C08", None, "", "", None),
    ("C08-token-removed", "C08", FMT, '        "|E{1,4}"\n', '        "|EE"\n', "TABLES.language"),
    ("C08-rule-removed", "C08", FMT, '        "E": lambda dt: f"{dt.isoweekday():d}",\n', "", "TABLES.handler"),
    ("C08-local-branch-removed", "C08", FMT, '        elif token == "Mo":\n            return locale.ordinalize(dt.month)\n', "", "TABLES.handler"),
    ("C08-parse-entry-removed", "C08", FMT, '        "Y": lambda year: int(year),\n', "", "TABLES.parse-entry"),
    ("C08-arm-wrong-slot", "C08", FMT, '        elif "m" in token:\n            parsed["minute"] = parsed_token', '        elif "m" in token:\n            parsed["second"] = parsed_token', "TABLES.parse-arm"),
    ("C08-arm-order", "C08", FMT, '        elif token in ["DDDD", "DDD"]:\n            parsed["day_of_year"] = parsed_token\n        elif "D" in token:\n            parsed["day"] = parsed_token', '        elif "D" in token:\n            parsed["day"] = parsed_token\n        elif token in ["DDDD", "DDD"]:\n            parsed["day_of_year"] = parsed_token', "TABLES.parse-arm"),
    ("C08-S-scale", "C08", FMT, '"SSSS": lambda us: int(us) * 100,', '"SSSS": lambda us: int(us) * 1000,', "SCALE.parse"),
    ("C08-S-render", "C08", FMT, '"SS": lambda dt: f"{dt.microsecond // 10000:02d}",', '"SS": lambda dt: f"{dt.microsecond // 1000:02d}",', "RENDER.rule"),
    ("C08-pad", "C08", FMT, '"DDDD": lambda dt: f"{dt.day_of_year:03d}",', '"DDDD": lambda dt: f"{dt.day_of_year:02d}",', "RENDER.rule"),
    ("C08-hh-mod", "C08", FMT, '"hh": lambda dt: f"{dt.hour % 12 or 12:02d}",', '"hh": lambda dt: f"{dt.hour % 12:02d}",', "RENDER.rule"),
    ("C08-d-shift", "C08", FMT, '"d": lambda dt: f"{(dt.day_of_week + 1) % 7:d}",', '"d": lambda dt: f"{dt.day_of_week % 7:d}",', "RENDER.rule"),
    ("C08-x-ms", "C08", FMT, 'f"{dt.int_timestamp * 1000 + dt.microsecond // 1000:d}"', 'f"{dt.int_timestamp * 1000 + dt.microsecond // 100:d}"', "RENDER.rule"),
    ("C08-regex-width", "C08", FMT, '"DDDD": _MATCH_3,', '"DDDD": _MATCH_4,', "WIDTH.regex"),
    ("C08-A-gt", "C08", FMT, "            if dt.hour >= 12:", "            if dt.hour > 12:", "MERIDIEM"),
    ("C08-meridiem-add", "C08", FMT, '                validated["hour"] += 12  # type: ignore[operator]', '                validated["hour"] += 11  # type: ignore[operator]', "MERIDIEM"),
    ("C08-Z-sign", "C08", FMT, 'sign = "+" if minutes >= 0 else "-"', 'sign = "+" if minutes > 0 else "-"', "OFFSET.render"),
    ("C08-Z-sep", "C08", FMT, 'separator = ":" if token == "Z" else ""', 'separator = ":" if token == "ZZ" else ""', "OFFSET.render"),
    ("C08-named-wrong-const", "C08", DT, '        "rfc850": RFC850,', '        "rfc850": RFC822,', "NAMED.table"),
    ("C08-named-method", "C08", DT, '        return self._to_string("rfc1123")', '        return self._to_string("rfc1036")', "NAMED.method"),
    ("C08-const-changed", "C08", CONST, 'RFC1123 = "ddd, DD MMM YYYY HH:mm:ss ZZ"', 'RFC1123 = "ddd, DD MMM YY HH:mm:ss ZZ"', "NAMED.const"),
    ("C08-iso-z", "C08", DT, '        if self.tz and self.tz.name == "UTC":', '        if self.tz:', "NAMED.iso8601"),
    ("C08-from-format-locale", "C08", INIT, "parts = _formatter.parse(string, fmt, now(tz=tz), locale=locale)", "parts = _formatter.parse(string, fmt, now(tz=tz))", "FROMFORMAT.forward"),
]

VARIANTS += [
    ("C09-clean", "C09", None, "", "", None),
    ("C09-year-366", "C09", DUR, "            days + years * 365 + months * 30,", "            days + years * 366 + months * 30,", "UNITS.new"),
    ("C09-slot-swap", "C09", DUR, "            milliseconds,\n            minutes,\n            hours,\n            weeks,\n        )\n\n        # Intuitive", "            milliseconds,\n            hours,\n            minutes,\n            weeks,\n        )\n\n        # Intuitive", "UNITS.new"),
    ("C09-total-month", "C09", DUR, "            (timedelta.days.__get__(self) - (years * 365 + months * 30))", "            (timedelta.days.__get__(self) - (years * 365 + months * 31))", "UNITS.new"),
    ("C09-sign-le-benign", "C09", DUR, "        if total < 0:\n            m = -1", "        if total <= 0:\n            m = -1", None),   # at total == 0 every component is 0 whatever the sign: behaviour-preserving (found by the tabulated rule)
    ("C09-sign-gt", "C09", DUR, "        if total < 0:\n            m = -1", "        if total > 0:\n            m = -1", "DIVMOD"),
    ("C09-seconds-nosign", "C09", DUR, "self._seconds = abs(total) // US_PER_SECOND % SECONDS_PER_DAY * m", "self._seconds = abs(total) // US_PER_SECOND % SECONDS_PER_DAY", "DIVMOD"),
    ("C09-days-hour", "C09", DUR, "_days = abs(total) // US_PER_SECOND // SECONDS_PER_DAY * m", "_days = abs(total) // US_PER_SECOND // SECONDS_PER_HOUR * m", "DIVMOD"),
    ("C09-weeks-mod", "C09", DUR, "self._weeks = abs(_days) // 7 * m", "self._weeks = abs(_days) // 7", "DIVMOD.pair"),
    ("C09-hours-radix", "C09", DUR, "self._h = (abs(seconds) // 3600 % 24) * self._sign(seconds)", "self._h = (abs(seconds) // 3600 % 12) * self._sign(seconds)", "RADIX.digit"),
    ("C09-minutes-nosign", "C09", DUR, "self._i = (abs(seconds) // 60 % 60) * self._sign(seconds)", "self._i = (abs(seconds) // 60 % 60)", "RADIX.digit"),
    ("C09-sign-fn", "C09", DUR, "        if value < 0:\n            return -1\n\n        return 1", "        if value <= 0:\n            return -1\n\n        return 1", "RADIX.sign"),
    ("C09-months-abs", "C09", DUR, "        self._months = months\n        self._years = years", "        self._months = abs(months)\n        self._years = years", "DIVMOD.pair"),
    # (C09-guard-removed was dropped: the property quantifies over integer arguments, a constructor without the float guard still satisfies it)
    ("C09-abs-divmod", "C09", DUR, "self._weeks, self._remaining_days = divmod(days, 7)", "self._remaining_days, self._weeks = divmod(days, 7)", "DIVMOD.pair"),
    ("C09-in-days-floor", "C09", DUR, [("        return int(self.total_days())", "        return math.floor(self.total_days())"), ("from datetime import timedelta\n", "import math\n\nfrom datetime import timedelta\n")], None, "TOTALS.tabulated"),
]

VARIANTS += [
    ("C10-clean", "C10", None, "", "", None),
    ("C10-private-on-timedelta", "C10", DUR, "            return cast(int, usec // _to_microseconds(other))", "            return cast(int, usec // other._to_microseconds())", "ATTR-UNDER-GUARD"),
    ("C10-helper-weights", "C10", DUR, "    return (delta.days * (24 * 3600) + delta.seconds) * 1000000 + delta.microseconds", "    return (delta.days * (24 * 3600) + delta.seconds) * 1000000", "UNITS.usec"),
    ("C10-usec-weights", "C10", DUR, "return (self._days * (24 * 3600) + self._seconds) * 1000000 + self._microseconds", "return (self._days * (24 * 360) + self._seconds) * 1000000 + self._microseconds", "UNITS.usec"),
    ("C10-mul-ratio", "C10", DUR, "return self.__class__(0, 0, _divide_and_round(usec * a, b))", "return self.__class__(0, 0, _divide_and_round(usec * b, a))", "RATIO"),
    ("C10-truediv-ratio", "C10", DUR, "                _divide_and_round(b * usec, a),", "                _divide_and_round(a * usec, b),", "RATIO"),
    ("C10-round-half", "C10", DUR, "    if greater_than_half or r == b and q % 2 == 1:", "    if greater_than_half or r == b:", "REFERENCE.divide_and_round"),
    ("C10-mul-native-result", "C10", DUR, "            return self.__class__(\n                years=self._years * other,\n                months=self._months * other,\n                microseconds=self._to_microseconds() * other,\n            )", "            return timedelta(microseconds=self._to_microseconds() * other)", "DUNDER.result"),
    ("C10-mul-drop-months", "C10", DUR, "                years=self._years * other,\n                months=self._months * other,\n", "                years=self._years * other,\n", "SCALE.int"),
    ("C10-no-guard", "C10", DUR, "    def __mod__(self, other: timedelta) -> Self:\n        if isinstance(other, timedelta):\n", "    def __mod__(self, other: timedelta) -> Self:\n        if True:\n", "DUNDER"),
    ("C10-fall-off", "C10", DUR, "        if not isinstance(other, (int, timedelta)):\n            return NotImplemented\n", "        if not isinstance(other, (int, float, timedelta)):\n            return NotImplemented\n", "DUNDER.returns"),
    ("C10-radd-removed", "C10", DUR, "    __radd__ = __add__\n\n    def __sub__", "    def __sub__", "DUNDER.reflected"),
    ("C10-add-minus", "C10", DUR, "                microseconds=_native_microseconds(self) + _native_microseconds(other)", "                microseconds=_native_microseconds(self) - _native_microseconds(other)", "ADDSUB"),
    ("C10-add-float-again", "C10", DUR, "            return self.__class__(\n                microseconds=_native_microseconds(self) + _native_microseconds(other)\n            )", "            return self.__class__(seconds=self.total_seconds() + other.total_seconds())", "ADDSUB"),
    ("C10-native-helper-weight", "C10", DUR, "        timedelta.days.__get__(delta) * SECONDS_PER_DAY\n        + timedelta.seconds.__get__(delta)\n    ) * US_PER_SECOND + timedelta.microseconds.__get__(delta)", "        timedelta.days.__get__(delta) * SECONDS_PER_DAY\n        + timedelta.seconds.__get__(delta)\n    ) * US_PER_SECOND", "UNITS.native"),
    ("C10-interval-no-delegate", "C10", IV, "    def __mod__(self, other: timedelta) -> Duration:  # type: ignore[override]\n        return self.as_duration().__mod__(other)\n", "", "CTOR-LSP"),
    ("C10-as-duration", "C10", IV, "        return Duration(microseconds=_native_microseconds(self))", "        return Duration(seconds=self.in_seconds())", "INTERVAL.exact"),
    ("C10-as-duration-float", "C10", IV, "        return Duration(microseconds=_native_microseconds(self))", "        return Duration(seconds=self.total_seconds())", "INTERVAL.exact"),
]

TIME = "src/pendulum/time.py"
MIX = "src/pendulum/mixins/default.py"
VARIANTS += [
    ("C11-clean", "C11", None, "", "", None),
    ("C11-override-removed", "C11", DT, "    def date(self) -> Date:\n        return Date(self.year, self.month, self.day)\n\n", "", "OVERRIDE.inventory"),
    ("C11-native-return", "C11", DT, "        dt = super().astimezone(tz)\n\n        return self.__class__(\n            dt.year,\n            dt.month,\n            dt.day,\n            dt.hour,\n            dt.minute,\n            dt.second,\n            dt.microsecond,\n            fold=dt.fold,\n            tzinfo=dt.tzinfo,\n        )", "        return super().astimezone(tz)", "OVERRIDE.returns"),
    ("C11-time-swap", "C11", DT, "return Time(self.hour, self.minute, self.second, self.microsecond)", "return Time(self.hour, self.second, self.minute, self.microsecond)", "RECON.slot"),
    ("C11-date-replace-keep", "C11", DATE, "        month = month if month is not None else self.month\n", "        month = month if month is not None else 1\n", "REPLACE.keep"),
    ("C11-time-replace-fold", "C11", TIME, "            t.hour, t.minute, t.second, t.microsecond, tzinfo=t.tzinfo, fold=t.fold\n", "            t.hour, t.minute, t.second, t.microsecond, tzinfo=t.tzinfo\n", "RECON.state"),
    ("C11-time-replace-default", "C11", TIME, "        if fold is None:\n            fold = self.fold\n", "        if fold is None:\n            fold = 0\n", "REPLACE.keep"),
    ("C11-time-replace-order", "C11", TIME, "            hour,\n            minute,\n            second,\n            microsecond,\n            tzinfo=cast(Optional[datetime.tzinfo], tzinfo),", "            hour,\n            second,\n            minute,\n            microsecond,\n            tzinfo=cast(Optional[datetime.tzinfo], tzinfo),", "REPLACE.keep"),
    ("C11-replace-sig", "C11", DT, "        hour: SupportsIndex | None = None,\n        minute: SupportsIndex | None = None,\n        second: SupportsIndex | None = None,\n        microsecond: SupportsIndex | None = None,\n        tzinfo: bool | datetime.tzinfo | Literal[True] | None = True,", "        minute: SupportsIndex | None = None,\n        hour: SupportsIndex | None = None,\n        second: SupportsIndex | None = None,\n        microsecond: SupportsIndex | None = None,\n        tzinfo: bool | datetime.tzinfo | Literal[True] | None = True,", "LSP.signature"),
    ("C11-hash-removed", "C11", IV, "    def __hash__(self) -> int:\n        return hash((self.start, self.end, self._absolute))\n\n", "", "EQHASH.pair"),
    ("C11-str", "C11", MIX, "    def __str__(self) -> str:\n        return self.isoformat()", "    def __str__(self) -> str:\n        return self.ctime()", "STR"),
    ("C11-fromordinal-native", "C11", DATE, "        dt = super().fromordinal(n)\n\n        return cls(dt.year, dt.month, dt.day)", "        return super().fromordinal(n)", "OVERRIDE.returns"),
    ("C11-int-timestamp-nofold", "C11", DT, "            tzinfo=self.tzinfo,\n            fold=self.fold,\n        )\n\n        delta = dt - self._EPOCH", "            tzinfo=self.tzinfo,\n        )\n\n        delta = dt - self._EPOCH", "RECON.state"),
]

OLD_START = '''        # The start of a day (or of a larger unit) does not depend on the fold
        # of the instance: a skipped boundary is resolved forward,
        # a repeated one to its first occurrence.
        dt = getattr(self.replace(fold=1), f"_start_of_{unit}")()
        first = dt.replace(fold=0)

        # Only a repeated start needs fold=0 (its first occurrence)
        return cast("Self", first if first.utcoffset() != dt.utcoffset() else dt)
'''
VARIANTS += [
    ("C12-clean", "C12", None, "", "", None),
    ("C12-prefix-fold-flow", "C12", DT, OLD_START, '        return cast("Self", getattr(self, f"_start_of_{unit}")())\n', "FOLD.flow"),
    ("C12-day-in-small", "C12", DT, '        if unit in ("second", "minute", "hour"):\n            # The fold of the instance selects the occurrence of a repeated\n            # time, but a skipped end', '        if unit in ("second", "minute", "hour", "day"):\n            # The fold of the instance selects the occurrence of a repeated\n            # time, but a skipped end', "FOLD"),
    ("C12-start-always-first", "C12", DT, "        return cast(\"Self\", first if first.utcoffset() != dt.utcoffset() else dt)", "        return cast(\"Self\", first)", None),
    ("C12-start-never-first", "C12", DT, "        return cast(\"Self\", first if first.utcoffset() != dt.utcoffset() else dt)", "        return cast(\"Self\", dt)", "FOLD.flow"),
    ("C12-wrong-pin", "C12", DT, 'dt = getattr(self.replace(fold=0), f"_end_of_{unit}")()', 'dt = getattr(self.replace(fold=1), f"_end_of_{unit}")()', "FOLD.flow"),
    ("C12-unit-removed", "C12", DT, '        "decade",\n        "century",\n    ]\n\n    _EPOCH', '        "decade",\n        "century",\n        "millennium",\n    ]\n\n    _EPOCH', "DISPATCH.exhaustive"),
    ("C12-end-minute-58", "C12", DT, "        return self.set(second=59, microsecond=999999)", "        return self.set(second=58, microsecond=999999)", "LATTICE.fields"),
    ("C12-end-year-30", "C12", DT, "        return self.set(self.year, 12, 31, 23, 59, 59, 999999)", "        return self.set(self.year, 12, 30, 23, 59, 59, 999999)", "LATTICE.fields"),
    ("C12-start-hour-keeps-min", "C12", DT, "        return self.set(minute=0, second=0, microsecond=0)", "        return self.set(second=0, microsecond=0)", "LATTICE.fields"),
    ("C12-end-month-31", "C12", DATE, "        return self.set(self.year, self.month, self.days_in_month)", "        return self.set(self.year, self.month, 31)", "LATTICE.fields"),
    ("C12-decade-off", "C12", DT, "        year = self.year - self.year % YEARS_PER_DECADE + YEARS_PER_DECADE - 1\n\n        return self.set(year, 12, 31, 23, 59, 59, 999999)", "        year = self.year - self.year % YEARS_PER_DECADE + YEARS_PER_DECADE\n\n        return self.set(year, 12, 31, 23, 59, 59, 999999)", "YEAR.form"),
    ("C12-century-base", "C12", DATE, "        year = self.year - 1 - (self.year - 1) % YEARS_PER_CENTURY + 1\n\n        return self.set(year, 1, 1)", "        year = self.year - self.year % YEARS_PER_CENTURY\n\n        return self.set(year, 1, 1)", "YEAR.form"),
    ("C12-week-next", "C12", DT, "            dt = self.previous(pendulum._WEEK_STARTS_AT)", "            dt = self.next(pendulum._WEEK_STARTS_AT)", "WEEK.pairing"),
    ("C12-week-ends-start", "C12", DATE, "        if self.day_of_week != pendulum._WEEK_ENDS_AT:\n            dt = self.next(pendulum._WEEK_ENDS_AT)", "        if self.day_of_week != pendulum._WEEK_STARTS_AT:\n            dt = self.next(pendulum._WEEK_ENDS_AT)", "WEEK.pairing"),
    ("C12-setter-bound", "C12", HELP, "    if wday < WeekDay.MONDAY or wday > WeekDay.SUNDAY:\n        raise ValueError(\"Invalid day of week\")\n\n    pendulum._WEEK_ENDS_AT = wday", "    if wday < WeekDay.MONDAY:\n        raise ValueError(\"Invalid day of week\")\n\n    pendulum._WEEK_ENDS_AT = wday", "WEEK.setter"),
    ("C12-start-day-at", "C12", DT, "        return self.at(0, 0, 0, 0)", "        return self.at(0, 0, 0, 1)", "LATTICE.fields"),
    ("C12-equivalent-refactor", "C12", DT, "        year = self.year - self.year % YEARS_PER_DECADE\n        return self.set(year, 1, 1, 0, 0, 0, 0)", "        year = -(self.year % YEARS_PER_DECADE) + self.year\n        return self.set(year, 1, 1, 0, 0, 0, 0)", None),
]

VARIANTS += [
    ("C13-clean", "C13", None, "", "", None),
    ("C13-py-const-div", "C13", ISO, '                hours = float(f"0.{_hours}") * HOURS_PER_DAY', '                hours = int(_hours) / 10 * HOURS_PER_DAY', "FRACTION-SCALE"),
    ("C13-py-truncate", "C13", ISO, '                microseconds += round(float(f"0.{_microseconds}") * 1000000)', '                microseconds += int(f"{_microseconds[:6]:0<6}")', "FRACTION-SCALE"),
    ("C13-py-carry-int", "C13", ISO, "days, hours = int(_days // 1), _days % 1 * HOURS_PER_DAY", "days, hours = int(_days // 1), int(_days % 1 * HOURS_PER_DAY)", "FRACTION-SCALE"),
    ("C13-py-fraction-dropped", "C13", ISO, '                seconds += float(f"0.{_secs}") * SECONDS_PER_MINUTE\n', "", "FRACTION-SCALE"),
    ("C13-py-frac-not-last", "C13", ISO, "        if _minutes:\n            if fractional:\n                raise ParserError(\"Invalid duration\")\n", "        if _minutes:\n", "FRACTION.last-only"),
    ("C13-rs-unchecked", "C13", RSP, "            value = match value.checked_mul(10).and_then(|v| v.checked_add(digit)) {\n                Some(v) => v,\n                None => return Err(self.parse_error(\"Number too large in duration\".to_string())),\n            };", "            value *= 10;\n            value += digit;", "RUST-ARITH.loop"),
    ("C13-rs-taint", "C13", RSP, "duration.hours = self.add_duration_value(duration.hours, value)?;", "duration.hours += value;", "RUST-ARITH.taint"),
    ("C13-rs-unbounded-length", "C13", RSP, "            let iso_week = self.parse_integer(2, \"iso week\")?;\n            let mut iso_day: u32 = 1;\n\n            if !self.end() && self.current != ' ' && self.current != 'T' {\n                iso_day = self.parse_integer(1, \"iso day\")?;", "            let n = self.src.len();\n            let iso_week = self.parse_integer(n, \"iso week\")?;\n            let mut iso_day: u32 = 1;\n\n            if !self.end() && self.current != ' ' && self.current != 'T' {\n                iso_day = self.parse_integer(1, \"iso day\")?;", "RUST-ARITH.bounded"),
    ("C13-interval-add-drop", "C13", PARSER, "                        seconds=duration.remaining_seconds,\n                        microseconds=duration.microseconds,\n                    ),\n                )", "                        seconds=duration.remaining_seconds,\n                    ),\n                )", "INTERVAL.assembly"),
    ("C13-interval-sub-days", "C13", PARSER, "                    days=duration.remaining_days,\n                    hours=duration.hours,\n                    minutes=duration.minutes,\n                    seconds=duration.remaining_seconds,\n                    microseconds=duration.microseconds,\n                ),\n                dt,", "                    days=duration.days,\n                    hours=duration.hours,\n                    minutes=duration.minutes,\n                    seconds=duration.remaining_seconds,\n                    microseconds=duration.microseconds,\n                ),\n                dt,", "INTERVAL.assembly"),
    ("C13-interval-add-sub-swap", "C13", PARSER, "                return pendulum.interval(\n                    dt,\n                    dt.add(", "                return pendulum.interval(\n                    dt,\n                    dt.subtract(", "INTERVAL.assembly"),
    ("C13-rust-to-py", "C13", PARSER, "            days=parsed.days,\n            hours=parsed.hours,", "            days=parsed.hours,\n            hours=parsed.days,", "ATTRS.rust-to-py"),
]

VARIANTS += [
    ("C14-clean", "C14", None, "", "", None),
    ("C14-pickle-nofold", "C14", DT, "        return (\n            functools.partial(self.__class__, fold=self.fold),\n            self._getstate(protocol),\n        )", "        return self.__class__, self._getstate(protocol)", "STATE-COMPLETE"),
    ("C14-time-pickle-nofold", "C14", TIME, "        return (\n            functools.partial(self.__class__, fold=self.fold),\n            self._get_state(protocol),\n        )", "        return self.__class__, self._get_state(protocol)", "STATE-COMPLETE"),
    ("C14-state-swap", "C14", DT, "            self.hour,\n            self.minute,\n            self.second,\n            self.microsecond,\n            self.tzinfo,\n        )", "            self.hour,\n            self.second,\n            self.minute,\n            self.microsecond,\n            self.tzinfo,\n        )", "STATE-COMPLETE"),
    ("C14-state-tz", "C14", DT, "            self.microsecond,\n            self.tzinfo,\n        )\n\n    def __reduce__", "            self.microsecond,\n            self.tz,\n        )\n\n    def __reduce__", "STATE-COMPLETE"),
    ("C14-deepcopy-tz", "C14", DT, "            tzinfo=self.tzinfo,\n            fold=self.fold,\n        )\n\n    def _cmp", "            tzinfo=self.tz,\n            fold=self.fold,\n        )\n\n    def _cmp", "DEEPCOPY.lossless"),
    ("C14-deepcopy-nofold", "C14", DT, "            tzinfo=self.tzinfo,\n            fold=self.fold,\n        )\n\n    def _cmp", "            tzinfo=self.tzinfo,\n        )\n\n    def _cmp", "DEEPCOPY.state"),
    ("C14-dur-deepcopy-weeks", "C14", DUR, "            hours=self.hours,\n            weeks=self.weeks,\n", "            hours=self.hours,\n", "STATE-COMPLETE"),
    ("C14-dur-deepcopy-days", "C14", DUR, "        return self.__class__(\n            days=self.remaining_days,\n            seconds=self.remaining_seconds,\n            microseconds=self.microseconds,\n            minutes=self.minutes,\n            hours=self.hours,\n            weeks", "        return self.__class__(\n            days=self.days,\n            seconds=self.remaining_seconds,\n            microseconds=self.microseconds,\n            minutes=self.minutes,\n            hours=self.hours,\n            weeks", "STATE-COMPLETE"),
    ("C14-dur-pickle-removed", "C14", DUR, "    def __reduce__(self) -> tuple[type[Self], tuple[int, ...]]:\n        return self.__class__, self._getstate()\n\n", "", "STATE-COMPLETE"),
    ("C14-dur-state-order", "C14", DUR, "            self.minutes,\n            self.hours,\n            self.weeks,\n            self.years,\n            self.months,\n        )\n\n    def __reduce__", "            self.hours,\n            self.minutes,\n            self.weeks,\n            self.years,\n            self.months,\n        )\n\n    def __reduce__", "STATE-COMPLETE"),
    ("C14-interval-deepcopy-removed", "C14", IV, "    def __deepcopy__(self, memo: dict[int, Self]) -> Self:  # type: ignore[override]\n        start, end, absolute = self._getstate()\n\n        return self.__class__(\n            copy.deepcopy(start, memo), copy.deepcopy(end, memo), absolute\n        )\n\n", "", "CTOR-LSP"),
    ("C14-interval-state-noswap", "C14", IV, "        if self._invert and self._absolute:\n            end, start = start, end\n\n        return start, end, self._absolute", "        return start, end, self._absolute", "STATE-COMPLETE"),
    ("C14-interval-state-abs", "C14", IV, "        return start, end, self._absolute\n", "        return start, end, False\n", "STATE-COMPLETE"),
    ("C14-fixed-initargs", "C14", TZ, "        return self._offset, self._name", "        return self._offset, None", "STATE-COMPLETE"),
]

RSC = "rust/src/constants.rs"
VARIANTS += [
    ("C15-clean", "C15", None, "", "", None),
    ("C15-offsets-entry", "C15", CONST, "    (-1, 0, 31, 59, 90, 120, 151, 181, 212, 243, 273, 304, 334, 365),", "    (-1, 0, 31, 59, 90, 120, 151, 181, 212, 243, 273, 303, 334, 365),", "TABLES.prefix"),
    ("C15-dow-table", "C15", CONST, "DAY_OF_WEEK_TABLE = (0, 3, 2, 5, 0, 3, 5, 1, 4, 6, 2, 4)", "DAY_OF_WEEK_TABLE = (0, 3, 2, 5, 0, 3, 5, 1, 4, 6, 2, 5)", "TABLES.dow"),
    ("C15-100y", "C15", CONST, "    (76 * DAYS_PER_N_YEAR + 24 * DAYS_PER_L_YEAR) * SECS_PER_DAY,", "    (75 * DAYS_PER_N_YEAR + 25 * DAYS_PER_L_YEAR) * SECS_PER_DAY,", "TABLES.secs"),
    ("C15-rs-const", "C15", RSC, "pub const DAY_OF_WEEK_TABLE: [u32; 12] = [0, 3, 2, 5, 0, 3, 5, 1, 4, 6, 2, 4];", "pub const DAY_OF_WEEK_TABLE: [u32; 12] = [0, 3, 2, 5, 0, 3, 5, 1, 4, 6, 3, 4];", "TABLES.py-rs"),
    ("C15-py-leap", "C15", PYH, "    return year % 4 == 0 and (year % 100 != 0 or year % 400 == 0)", "    return year % 4 == 0 and (year % 100 != 0 or year % 1000 == 0)", "FORMULA.is_leap"),
    ("C15-rs-leap", "C15", RSHH, "    year % 4 == 0 && (year % 100 != 0 || year % 400 == 0)", "    year % 4 == 0 && year % 100 != 0", "SIBLING.is_leap"),
    ("C15-py-p", "C15", PYH, "        return y + y // 4 - y // 100 + y // 400", "        return y + y // 4 - y // 100 + y // 40", "FORMULA.p"),
    ("C15-rs-long-year", "C15", RSHH, "    (p(year) % 7 == 4) || (p(year - 1) % 7 == 3)", "    (p(year) % 7 == 4) || (p(year - 1) % 7 == 4)", "SIBLING.is_long_year"),
    ("C15-py-weekday", "C15", PYH, "    if month < 3:\n        year -= 1\n\n    w = (", "    if month < 2:\n        year -= 1\n\n    w = (", "FORMULA.week_day"),
    ("C15-rs-weekday", "C15", RSHH, "let y: i32 = year - i32::from(month < 3);", "let y: i32 = year - i32::from(month < 4);", "SIBLING.week_day"),
    # (month * 306 + 4) // 10 equals (month * 306 + 5) // 10 for every month 0..11 (the remainders are 5, 1, 7, 3, 9, 5, 1, 7, 3, 9, 5, 1): behaviour-preserving,
    # as PRIM.tabulated py:_day_number shows - it had been a must-report variant of the formula shape rule
    ("C15-py-daynumber", "C15", PYH, "        + (month * 306 + 5) // 10", "        + (month * 306 + 4) // 10", None),
    ("C15-py-daynumber-2", "C15", PYH, "        + (month * 306 + 5) // 10", "        + (month * 306 + 9) // 10", "PRIM.tabulated"),
    ("C15-rs-daynumber", "C15", RSHH, "let m = i32::from((month + 9) % 12);", "let m = i32::from((month + 8) % 12);", "SIBLING.day_number"),
    ("C15-py-localtime-shift", "C15", PYH, "        seconds -= 10957 * SECS_PER_DAY\n        year += 30  # == 2000", "        seconds -= 10958 * SECS_PER_DAY\n        year += 30  # == 2000", "LOCALTIME.prefix"),
    ("C15-rs-localtime-shift", "C15", RSHH, "        year -= 370; // == 1600", "        year -= 371; // == 1600", "SIBLING.local_time"),
    ("C15-py-localtime-leapflag", "C15", PYH, "        year += 4\n        leap_year = 1  # 4-year, non century aligned", "        year += 4\n        leap_year = 0  # 4-year, non century aligned", "LOCALTIME.chunks"),
    ("C15-rs-localtime-step", "C15", RSHH, "        year += 100;\n", "        year += 10;\n", "SIBLING.local_time"),
    ("C15-day-of-year", "C15", DATE, "return (275 * self.month) // 9 - k * ((self.month + 9) // 12) + self.day - 30", "return (275 * self.month) // 9 - k * ((self.month + 9) // 12) + self.day - 31", "TABULATE.day_of_year"),
    ("C15-quarter", "C15", DATE, "        return math.ceil(self.month / 3)", "        return math.ceil(self.month / 4)", "TABULATE.quarter"),
    ("C15-days-in-month", "C15", DATE, "return calendar.monthrange(self.year, self.month)[1]", "return calendar.monthrange(self.year, self.month)[0]", "DELEGATE"),
    ("C15-weekday-enum", "C15", "src/pendulum/day.py", "    MONDAY = 0\n    TUESDAY = 1", "    MONDAY = 1\n    TUESDAY = 0", "TABLES.enum"),
]

VARIANTS += [
    ("C16-clean", "C16", None, "", "", None),
    ("C16-next-nostep", "C16", DT, "        dt = dt.add(days=1)\n        while dt.day_of_week != day_of_week:\n            dt = dt.add(days=1)", "        while dt.day_of_week != day_of_week:\n            dt = dt.add(days=1)", "NAV.shape"),
    ("C16-previous-add", "C16", DATE, "        dt = self.subtract(days=1)\n        while dt.day_of_week != day_of_week:\n            dt = dt.subtract(days=1)", "        dt = self.subtract(days=1)\n        while dt.day_of_week != day_of_week:\n            dt = dt.add(days=1)", "NAV.shape"),
    ("C16-validate-upper", "C16", DT, "        if day_of_week < WeekDay.MONDAY or day_of_week > WeekDay.SUNDAY:\n            raise ValueError(\"Invalid day of week\")\n\n        dt = self if keep_time else self.start_of(\"day\")\n\n        dt = dt.add(days=1)", "        if day_of_week < WeekDay.MONDAY:\n            raise ValueError(\"Invalid day of week\")\n\n        dt = self if keep_time else self.start_of(\"day\")\n\n        dt = dt.add(days=1)", "NAV.shape"),
    ("C16-keep-time-inverted", "C16", DT, "        origin = self if keep_time else self.start_of(\"day\")\n", "        origin = self.start_of(\"day\") if keep_time else self\n", "CALENDAR.tabulated"),
    ("C16-previous-stall", "C16", DT, "        while dt.day_of_week != day_of_week or dt >= origin:\n            days += 1\n            dt = origin.subtract(days=days)", "        while dt.day_of_week != day_of_week:\n            dt = dt.subtract(days=1)", "CALENDAR.tabulated"),
    ("C16-rename-local", "C16", DATE, "        dt = self.subtract(days=1)\n        while dt.day_of_week != day_of_week:\n            dt = dt.subtract(days=1)\n\n        return dt", "        d = self.subtract(days=1)\n        while d.day_of_week != day_of_week:\n            d = d.subtract(days=1)\n\n        return d", None),
    ("C16-nth-range", "C16", DATE, "        dt = self.first_of(\"year\")\n        year = dt.year\n        for _ in range(nth - (1 if dt.day_of_week == day_of_week else 0)):", "        dt = self.first_of(\"year\")\n        year = dt.year\n        for _ in range(nth - (1 if dt.day_of_week != day_of_week else 0)):", "CLONE.shape"),
    ("C16-nth-no-shortcut-adj", "C16", DT, "        dt = self.first_of(\"month\")\n        check = dt.format(\"%Y-%M\")\n        for _ in range(nth - (1 if dt.day_of_week == day_of_week else 0)):", "        dt = self.first_of(\"month\")\n        check = dt.format(\"%Y-%M\")\n        for _ in range(nth):", "CLONE.shape"),
    ("C16-quarter-escape", "C16", DT, "        if last_month < dt.month or year != dt.year:\n            return None\n\n        return self.on(self.year, dt.month, dt.day).start_of(\"day\")\n\n    def _first_of_year", "        if last_month <= dt.month or year != dt.year:\n            return None\n\n        return self.on(self.year, dt.month, dt.day).start_of(\"day\")\n\n    def _first_of_year", "CLONE.shape"),
    ("C16-first-row", "C16", DATE, "            day_of_month = month[1][calendar_day]", "            day_of_month = month[2][calendar_day]", "CLONE.shape"),
    ("C16-last-row", "C16", DT, "        if month[-1][calendar_day] > 0:\n            day_of_month = month[-1][calendar_day]", "        if month[-1][calendar_day] > 0:\n            day_of_month = month[-2][calendar_day]", "CLONE.shape"),
    ("C16-quarter-first-month", "C16", DT, "return self.on(self.year, self.quarter * 3 - 2, 1).first_of(", "return self.on(self.year, self.quarter * 3 - 1, 1).first_of(", "CLONE.shape"),
    ("C16-last-year-month", "C16", DATE, "return self.set(month=MONTHS_PER_YEAR).last_of(\"month\", day_of_week)", "return self.set(month=11).last_of(\"month\", day_of_week)", "CLONE.shape"),
    ("C16-nth-result-month", "C16", DATE, "        return self.set(self.year, dt.month, dt.day)\n\n    def average", "        return self.set(self.year, self.month, dt.day)\n\n    def average", "CLONE.shape"),
    # since aa95346 nth_of() itself passes the helper's result through start_of('day'): behaviour-preserving (the calendar tabulation says so)
    ("C16-nth-midnight-benign", "C16", DT, "            return self.set(day=dt.day).start_of(\"day\")", "            return self.set(day=dt.day)", None),
    ("C16-nth-error", "C16", DT, "        if not dt:\n            raise PendulumException(", "        if dt:\n            raise PendulumException(", "DISPATCH.nth-error"),
    ("C16-dispatch-units", "C16", DATE, "        if unit not in [\"month\", \"quarter\", \"year\"]:\n            raise ValueError(f'Invalid unit \"{unit}\" for first_of()')\n\n        return cast(\"Self\", getattr(self, f\"_last_of_{unit}\")(day_of_week))", "        if unit not in [\"month\", \"year\"]:\n            raise ValueError(f'Invalid unit \"{unit}\" for first_of()')\n\n        return cast(\"Self\", getattr(self, f\"_last_of_{unit}\")(day_of_week))", "DISPATCH.units"),
]

VARIANTS += [
    ("C17-clean", "C17", None, "", "", None),
    ("C17-minute-optional", "C17", PARSING, r'(?P<hour>\d{1,2}):(?P<minute>\d{1,2})(?::(?P<second>\d{1,2}))?', r'(?P<hour>\d{1,2}):(?P<minute>\d{1,2})?(?::(?P<second>\d{1,2}))?', "NULLABLE-GROUP"),
    ("C17-second-unguarded", "C17", PARSING, '    second = int(m.group("second")) if m.group("second") else 0', '    second = int(m.group("second"))', "NULLABLE-GROUP"),
    ("C17-iso-minute-unguarded", "C17", ISO, '    if m.group("minute"):\n        minute = int(m.group("minute"))\n    elif minsep:', '    if minsep:\n        minute = int(m.group("minute"))\n    elif minsep:', "NULLABLE-GROUP"),
    ("C17-iso-day-regex-optional", "C17", ISO, r'(?P<monthsep>-)?(?P<month>\d{2})', r'(?P<monthsep>-)?(?P<month>\d{2})?', "NULLABLE-GROUP"),
    ("C17-weeks-unguarded", "C17", ISO, '        _weeks = m.group("weeks")\n        if not _weeks:\n            raise ParserError("Invalid duration string")\n', '        _weeks = m.group("weeks")\n', None),
    ("C17-no-overflow-handler", "C17", PARSER, "    try:\n        return _parse(text, **options)\n    except OverflowError as e:\n        # Numbers too large for a date, time or duration\n        raise ParserError(f\"Unable to parse string [{text}]: {e}\") from e", "    return _parse(text, **options)", "UNBOUNDED-INT"),
    ("C17-handler-wrong-exc", "C17", PARSER, "        raise ParserError(f\"Unable to parse string [{text}]: {e}\") from e", "        raise RuntimeError(f\"Unable to parse string [{text}]: {e}\") from e", "UNBOUNDED-INT.convert"),
    ("C17-interval-novalidate", "C17", PARSING, "    for bound in (start, end):\n        # A duration can only be applied to a date and time,\n        # an interval without duration may also join two dates.\n        if bound is not None and not isinstance(\n            bound, date if duration is None else datetime\n        ):\n            raise ParserError(\"Invalid interval\")\n", "", "CAST-UNION"),
    # a `P...` half is a Duration or an error in both parsers (iso8601.parse_iso8601 tries the duration pattern first and ISO8601_DT cannot
    # start with P; Parser::parse branches on 'P'): the defensive isinstance(duration, Duration) test is unreachable - behaviour-preserving
    # (found when CAST-UNION went from shape to tabulation)
    ("C17-interval-duration-novalidate-benign", "C17", PARSING, "    if duration is not None and not isinstance(duration, Duration):\n        raise ParserError(\"Invalid interval\")\n", "", None),
    ("C17-interval-date-with-duration", "C17", PARSING, "            bound, date if duration is None else datetime\n", "            bound, date\n", "CAST-UNION"),
    ("C17-interval-refuses-dates-quiet", "C17", PARSING, "            bound, date if duration is None else datetime\n", "            bound, datetime\n", None),   # a ParserError is within C17; C13 reports it
    ("C13-interval-refuses-dates", "C13", PARSING, "            bound, date if duration is None else datetime\n", "            bound, datetime\n", "INTERVAL.accepts"),
    ("C17-interval-validate-one", "C17", PARSING, "    for bound in (start, end):", "    for bound in (start,):", "CAST-UNION"),
    ("C17-ladder-arm-removed", "C17", PARSER, "    if isinstance(parsed, Duration):\n        return parsed\n", "", "LADDER.exhaustive"),
    ("C17-strict-ignored", "C17", PARSING, '    if options.get("strict", True):\n        raise ParserError(f"Unable to parse string [{text}]")', '    if options.get("strict", True) and False:\n        raise ParserError(f"Unable to parse string [{text}]")', "STRICT.gate"),
    ("C17-dateutil-overflow", "C17", PARSING, "    except (ValueError, OverflowError):", "    except ValueError:", "STRICT.errors"),
    ("C17-raise-typeerror", "C17", ISO, '        raise ParserError("Invalid ISO 8601 string")', '        raise TypeError("Invalid ISO 8601 string")', "EXC.explicit"),
    ("C17-rs-error-type", "C17", "rust/src/python/parsing.rs", "        Err(error) => Err(exceptions::PyValueError::new_err(error.to_string())),", "        Err(error) => Err(exceptions::PyTypeError::new_err(error.to_string())),", "RUST.errors"),
]

DF = "src/pendulum/formatting/difference_formatter.py"
VARIANTS += [
    ("C18-clean", "C18", None, "", "", None),
    ("C18-zh-named-field", "C18", "src/pendulum/locales/zh/custom.py", '"after": "{0}后"', '"after": "{time}后"', "PLACEHOLDERS"),
    ("C18-nl-week-data", "C18", "src/pendulum/locales/nl/locale.py", '        "week_data": {\n            "min_days": 1,', '        "week_data_": {\n            "min_days": 1,', "TOKENS.week_data"),
    ("C18-fr-missing-plural", "C18", "src/pendulum/locales/fr/locale.py", '"month": {"one": "{0} mois", "other": "{0} mois"},', '"month": {"other": "{0} mois"},', "KEY-CLOSURE"),
    ("C18-ru-relative-missing", "C18", "src/pendulum/locales/ru/custom.py", '    "before": "{0} до",\n', "", "KEY-CLOSURE"),
    ("C18-de-index-field", "C18", "src/pendulum/locales/de/custom.py", '"after": "{0} später"', '"after": "{1} später"', "PLACEHOLDERS"),
    ("C18-direction-swapped", "C18", DF, "                if is_future:\n                    key += \".future\"\n                else:\n                    key += \".past\"", "                if is_future:\n                    key += \".past\"\n                else:\n                    key += \".future\"", "DIRECTION.marker"),
    ("C18-direction-after", "C18", DF, "                key = \"custom\"\n                if is_future:\n                    key += \".after\"\n                else:\n                    key += \".before\"\n\n                return t.cast(str, locale.get(key).format(time))\n\n        key +=", "                key = \"custom\"\n                if not is_future:\n                    key += \".after\"\n                else:\n                    key += \".before\"\n\n                return t.cast(str, locale.get(key).format(time))\n\n        key +=", "DIRECTION.marker"),
    ("C18-invert-source", "C18", DF, "            is_future = diff.invert\n\n            if is_now:\n                # Relative to now", "            is_future = not diff.invert\n\n            if is_now:\n                # Relative to now", "DIRECTION.source"),
    ("C18-absolute-marker", "C18", DF, '        if absolute:\n            key = f"translations.units.{unit}"', '        if absolute:\n            key = f"translations.relative.{unit}.past"', "DIRECTION.absolute"),
    ("C18-ladder-threshold", "C18", DF, "            if diff.months > 6:", "            if diff.months > 5:", "LADDER.shape"),
    ("C18-ladder-order", "C18", DF, '        elif diff.hours > 0:\n            unit = "hour"\n            count = diff.hours\n        elif diff.minutes > 0:\n            unit = "minute"\n            count = diff.minutes', '        elif diff.minutes > 0:\n            unit = "minute"\n            count = diff.minutes\n        elif diff.hours > 0:\n            unit = "hour"\n            count = diff.hours', "LADDER.order"),
    ("C18-key-typo", "C18", DF, '                key = f"translations.relative.{unit}"', '                key = f"translations.relatives.{unit}"', "KEY-CLOSURE"),
    ("C18-months-table", "C18", "src/pendulum/locales/sv/locale.py", '12: "dec.",', "", "TOKENS.tables"),
    ("C18-inwords-unit", "C18", DUR, '            ("week", self.weeks),\n            ("day", self.remaining_days),\n            ("hour", self.hours),\n            ("minute", self.minutes),\n            ("second", self.remaining_seconds),\n        ]\n\n        if locale is None:', '            ("weeks", self.weeks),\n            ("day", self.remaining_days),\n            ("hour", self.hours),\n            ("minute", self.minutes),\n            ("second", self.remaining_seconds),\n        ]\n\n        if locale is None:', "INWORDS.units"),
    ("C18-is-now", "C18", DT, "        is_now = other is None\n\n        if is_now:\n            other = self.now()\n\n        diff = self.diff(other)\n\n        return pendulum.format_diff(diff, is_now, absolute, locale)", "        is_now = other is not None\n\n        if not is_now:\n            other = self.now()\n\n        diff = self.diff(other)\n\n        return pendulum.format_diff(diff, is_now, absolute, locale)", "FORWARD"),
]

VARIANTS += [
    ("C19-clean", "C19", None, "", "", None),
    ("C19-drift", "C19", IV, "            start = getattr(self.start, method)(**{unit: i})", "            start = getattr(start, method)(**{unit: amount})", "RANGE.no-drift"),
    ("C19-i-start", "C19", IV, "        i = amount\n        # The bounds", "        i = 0\n        # The bounds", "RANGE."),
    ("C19-i-advance", "C19", IV, "            i += amount\n", "            i += 1\n", "RANGE."),
    ("C19-exclusive-end", "C19", IV, "        while not (_is_after(end, start) if backwards else _is_after(start, end)):", "        while (_is_after(start, end) if backwards else _is_after(end, start)):", "RANGE."),
    ("C19-wallclock-bounds", "C19", IV, "        while not (_is_after(end, start) if backwards else _is_after(start, end)):", "        while (start >= end) if backwards else (start <= end):", "RANGE.tabulated"),
    ("C19-pair-mismatch", "C19", IV, "        while not (_is_after(end, start) if backwards else _is_after(start, end)):", "        while not (_is_after(start, end) if backwards else _is_after(start, end)):", "RANGE."),
    ("C19-selector", "C19", IV, "        backwards = not self._absolute and self.invert\n", "        backwards = self.invert\n", "RANGE."),
    ("C19-yield-after", "C19", IV, "            yield start\n\n            start = getattr(self.start, method)(**{unit: i})\n\n            i += amount", "            start = getattr(self.start, method)(**{unit: i})\n\n            yield start\n\n            i += amount", "RANGE.order"),
    ("C19-iter-unit", "C19", IV, '        return self.range("days")', '        return self.range("hours")', "RANGE.iter"),
    ("C19-contains", "C19", IV, "        return self.start <= item <= self.end", "        return self.start <= item < self.end", "RANGE.contains"),
    ("C19-rename-ok", "C19", IV, "        start, end = self.start, self.end\n\n        i = amount\n        # The bounds are compared as instants: inside a repeated hour\n        # the wall clock of a later value can be the earlier one.\n        while not (_is_after(end, start) if backwards else _is_after(start, end)):\n            yield start\n\n            start = getattr(self.start, method)(**{unit: i})", "        cur, end = self.start, self.end\n\n        i = amount\n        while not (_is_after(end, cur) if backwards else _is_after(cur, end)):\n            yield cur\n\n            cur = getattr(self.start, method)(**{unit: i})", None),
]

VARIANTS += [
    ("C20-clean", "C20", None, "", "", None),
    ("C20-diff-no-us", "C20", TIME, "        ) * USECS_PER_SEC + self.microsecond\n", "        ) * USECS_PER_SEC\n", "UNITS.components"),
    ("C20-diff-weight", "C20", TIME, "dt.hour * SECS_PER_HOUR + dt.minute * SECS_PER_MIN + dt.second", "dt.hour * SECS_PER_HOUR + dt.minute * SECS_PER_HOUR + dt.second", "UNITS.components"),
    ("C20-diff-direction", "C20", TIME, "return klass(microseconds=us2 - us1)", "return klass(microseconds=us1 - us2)", "UNITS.components"),
    ("C20-diff-abs-class", "C20", TIME, "        klass = Duration\n        if abs:\n            klass = AbsoluteDuration", "        klass = AbsoluteDuration\n        if abs:\n            klass = Duration", "DIFF.class"),
    ("C20-subtract-drop-us", "C20", TIME, "            .subtract(\n                hours=hours, minutes=minutes, seconds=seconds, microseconds=microseconds\n            )", "            .subtract(hours=hours, minutes=minutes, seconds=seconds)", "CARRIER.shape"),
    ("C20-subtract-uses-add", "C20", TIME, "            .subtract(\n", "            .add(\n", "CARRIER.shape"),
    ("C20-carrier-tz", "C20", DT, "DateTime.EPOCH = DateTime(1970, 1, 1, tzinfo=UTC)", "DateTime.EPOCH = DateTime(1970, 1, 1)", "CARRIER.utc"),
    ("C20-timedelta-days-ok", "C20", TIME, '        if delta.days:\n            raise TypeError("Cannot subtract timedelta with days to Time.")\n\n', "", "TIMEDELTA.arm"),
    ("C20-timedelta-us", "C20", TIME, "return self.add(seconds=delta.seconds, microseconds=delta.microseconds)", "return self.add(seconds=delta.seconds)", "TIMEDELTA.arm"),
    ("C20-sub-direction", "C20", TIME, "        return other.diff(self, False)", "        return self.diff(other, False)", "DIRECTION"),
    ("C20-closest-lossy", "C20", TIME, "        if self.diff(dt1).total_seconds() < self.diff(dt2).total_seconds():", "        if self.diff(dt1).in_seconds() < self.diff(dt2).in_seconds():", "ORDER.resolution"),
    ("C20-farthest-op", "C20", TIME, "        if self.diff(dt1).total_seconds() > self.diff(dt2).total_seconds():", "        if self.diff(dt1).total_seconds() < self.diff(dt2).total_seconds():", "ORDER.pairing"),
    ("C20-closest-recon", "C20", TIME, "        dt1 = self.__class__(dt1.hour, dt1.minute, dt1.second, dt1.microsecond)\n        dt2 = self.__class__(dt2.hour, dt2.minute, dt2.second, dt2.microsecond)\n\n        if self.diff(dt1).total_seconds() <", "        dt1 = self.__class__(dt1.hour, dt1.minute, dt1.second)\n        dt2 = self.__class__(dt2.hour, dt2.minute, dt2.second, dt2.microsecond)\n\n        if self.diff(dt1).total_seconds() <", "RECON.gap"),
]

# ---------------------------------------------------------------------------
# behaviour-preserving edits: none of these may be reported (quiet or UNVERIFIED is fine, VIOLATION / exit 2 is not)
BENIGN = [
    ("rename-add-local", DT, "        units_of_variable_length = any([years, months, weeks, days])", "        calendar_units = any([years, months, weeks, days])", ["C01", "C03", "C04"], [("units_of_variable_length", "calendar_units")]),
    ("convert-rename-locals", TZ, None, None, ["C01", "C02"], [("offset_before", "off0"), ("offset_after", "off1")]),
    ("duration-new-rename-m", DUR, None, None, ["C09", "C10", "C04"], [("        m = 1\n        if total < 0:\n            m = -1", "        sgn = 1\n        if total < 0:\n            sgn = -1"), ("% US_PER_SECOND * m", "% US_PER_SECOND * sgn"), ("% SECONDS_PER_DAY * m", "% SECONDS_PER_DAY * sgn"), ("// SECONDS_PER_DAY * m", "// SECONDS_PER_DAY * sgn"), ("% 7 * m", "% 7 * sgn"), ("// 7 * m", "// 7 * sgn")]),
    ("error-message-change", "src/pendulum/tz/exceptions.py", None, None, ["C01", "C02"], [('message = "The datetime {} does not exist."', 'message = "The datetime {} is not a valid local time."')]),
    ("add-unrelated-method", DT, None, None, ["C01", "C02", "C03", "C04", "C05", "C11", "C12", "C14", "C16"], [("    def is_utc(self) -> bool:", "    def is_epoch(self) -> bool:\n        return self.int_timestamp == 0\n\n    def is_utc(self) -> bool:")]),
    ("docstring-change", HELP, None, None, ["C03", "C04"], [('    Adds a duration to a date/datetime instance.', '    Adds a duration to a date or datetime instance (calendar aware).')]),
    ("interval-rename-delta", IV, None, None, ["C05", "C06", "C14", "C19"], [("        delta: timedelta = _end - _start\n", "        span: timedelta = _end - _start\n"), ("            days=delta.days,\n            seconds=delta.seconds,\n            microseconds=delta.microseconds,", "            days=span.days,\n            seconds=span.seconds,\n            microseconds=span.microseconds,")]),
    ("precise-diff-rename", PYH, None, None, ["C06", "C15"], [("hour_diff", "h_diff")]),
    ("time-diff-rename", TIME, None, None, ["C20"], [("us1", "a_us"), ("us2", "b_us")]),
    ("parser-rename-dt", PARSER, None, None, ["C13", "C17", "C07"], [("            duration = parsed.duration\n", "            duration = parsed.duration  # the parsed ISO 8601 duration\n")]),
    ("formatter-add-token-alias", FMT, None, None, ["C08", "C18"], [('        "YYYY": lambda dt: f"{dt.year:d}",\n', '        "YYYY": lambda dt: f"{dt.year:d}",\n        "YYYYY": lambda dt: f"{dt.year:05d}",\n')]),
    ("range-rename-i", IV, None, None, ["C19"], [("        i = amount\n", "        k = amount\n"), ("(**{unit: i})", "(**{unit: k})"), ("            i += amount", "            k += amount")]),
    ("iso-rename-ordinal", ISO, None, None, ["C07", "C17", "C13"], [("                        ordinal = int(m.group(\"month\") + m.group(\"day\"))", "                        ordinal = int(m.group(\"month\") + m.group(\"day\"))  # YYYY-DDD")]),
    ("locale-add-key", "src/pendulum/locales/fr/custom.py", None, None, ["C18"], [('    "after": ', '    "since": "depuis {0}",\n    "after": ')]),
    ("deepcopy-memo-name", DUR, None, None, ["C14", "C10"], [("    def __deepcopy__(self, _: dict[int, Self]) -> Self:\n        return self.__class__(\n            days=self.remaining_days,", "    def __deepcopy__(self, memo: dict[int, Self]) -> Self:\n        return self.__class__(\n            days=self.remaining_days,")]),
]
BENIGN += [
    ("type-self", DATE, None, None, ["C04", "C05", "C11", "C14"], [("        return self.__class__(dt.year, dt.month, dt.day)\n\n    def subtract", "        return type(self)(dt.year, dt.month, dt.day)\n\n    def subtract")]),
    ("annotated-assign", DUR, None, None, ["C09", "C10"], [("        self._total = total / US_PER_SECOND\n", "        self._total: float = total / US_PER_SECOND\n")]),
    ("astimezone-kwargs-order", DT, None, None, ["C01", "C11"], [("            dt.microsecond,\n            fold=dt.fold,\n            tzinfo=dt.tzinfo,\n        )", "            dt.microsecond,\n            tzinfo=dt.tzinfo,\n            fold=dt.fold,\n        )")]),
    ("convert-elif-to-if", TZ, None, None, ["C01", "C02"], [("            elif offset_before > offset_after and raise_on_unknown_times:\n                # Repeated time\n                raise AmbiguousTime(dt)", "            if offset_before > offset_after and raise_on_unknown_times:\n                # Repeated time\n                raise AmbiguousTime(dt)")]),
    ("time-diff-parenthesise", TIME, None, None, ["C20"], [("        return klass(microseconds=us2 - us1)", "        delta_us = us2 - us1\n\n        return klass(microseconds=delta_us)")]),
    ("neg-symmetry-kw-order", DATE, None, None, ["C04"], [("return self.add(years=-years, months=-months, weeks=-weeks, days=-days)", "return self.add(days=-days, weeks=-weeks, months=-months, years=-years)")]),
    ("in-seconds-trunc-int", DUR, None, None, ["C05", "C09"], [("    def in_weeks(self) -> int:\n        return int(self.total_weeks())", "    def in_weeks(self) -> int:\n        weeks = self.total_weeks()\n\n        return int(weeks)")]),
]
for _name, _file, _o, _n, _props, _pairs in BENIGN:
    for _p in _props:
        VARIANTS.append((f"{_p}-benign-{_name}", _p, _file, [(a, b) for a, b in _pairs] if _pairs else [(_o, _n)], None, None, None))

VARIANTS += [
    ("C13-rs-round-early", "C13", RSP, "                                    let extra_seconds =\n                                        (extra_minutes - extra_full_minutes) * 60.0;\n                                    let extra_full_seconds = extra_seconds.trunc();\n                                    duration.seconds += extra_full_seconds as u32;\n                                    let micro_extra = ((extra_seconds - extra_full_seconds)\n                                        * 1_000_000.0)\n                                        .round()\n                                        as u32;\n                                    duration.microseconds += micro_extra;\n                                }\n                            }\n                            'M' => {", "                                    let extra_seconds =\n                                        ((extra_minutes - extra_full_minutes) * 60.0).round();\n                                    let extra_full_seconds = extra_seconds.trunc();\n                                    duration.seconds += extra_full_seconds as u32;\n                                    let micro_extra = ((extra_seconds - extra_full_seconds)\n                                        * 1_000_000.0)\n                                        .round()\n                                        as u32;\n                                    duration.microseconds += micro_extra;\n                                }\n                            }\n                            'M' => {", "ROUND-LAST"),
]

VARIANTS += [
    ("C08-zone-two-parts", "C08", FMT, '_MATCH_TIMEZONE = "[A-Za-z0-9-+]+(/[A-Za-z0-9-+_]+)*"', '_MATCH_TIMEZONE = "[A-Za-z0-9-+]+(/[A-Za-z0-9-+_]+)?"', "ZONE.regex"),
    ("C08-extract-unanchored", "C08", FMT, '        self._get_parsed_values(m, parsed, loaded_locale, now)\n\n        return self._check_parsed(parsed, now)', '        self._get_parsed_values(re.search(pattern, time), parsed, loaded_locale, now)\n\n        return self._check_parsed(parsed, now)', "EXTRACT.anchored"),
]

VARIANTS += [
    ("C13-rs-order-value-guard", "C13", RSP, "                                if last_rank >= 6 {\n", "                                if duration.seconds != 0 || duration.microseconds != 0 {\n", "ORDER-GUARD"),
]


# defects repaired in /repo by 359d709 (a quarter token overrode the month and day of a full date) and 40e2e39 (copies of an absolute duration
# built from a negative amount lost the sign): re-introduced
VARIANTS += [
    ("C08-quarter-overrides-month", "C08", FMT, '        if parsed["quarter"] is not None and parsed["month"] is None:', '        if parsed["quarter"] is not None:', "ROUNDTRIP.tabulated"),
    ("C14-absolute-state-unsigned", "C14", DUR, "        if self._total < 0:\n            return cast(", "        if False:\n            return cast(", "STATE-COMPLETE.tabulated"),
    ("C14-absolute-deepcopy-inherited", "C14", DUR, "    def __deepcopy__(self, _: dict[int, Self]) -> Self:\n        return self.__class__(*self._getstate())\n", "", "STATE-COMPLETE.tabulated"),
]

# defect repaired in /repo by e2b9338 (nth_of() of an occurrence beyond 9999-12-31 raised OverflowError): re-introduced
VARIANTS += [
    ("C16-nth-overflow-date", "C16", "src/pendulum/date.py", "        except OverflowError:\n            # The occurrence would lie after the last supported date\n            dt = None\n", "        except ZeroDivisionError:\n            dt = None\n", "CALENDAR.tabulated"),
    ("C16-nth-overflow-datetime", "C16", DT, "        except OverflowError:\n            # The occurrence would lie after the last supported date\n            dt = None\n", "        except ZeroDivisionError:\n            dt = None\n", "CALENDAR.tabulated"),
]

# round 2: rules added for the second batch of independent seeds and for the defects they led to
VARIANTS += [
    ("C06-rs-carry-gt", "C06", RSH, "            } else if dtinfo1.hour >= 24 {", "            } else if dtinfo1.hour > 24 {", "UTCSHIFT.rs"),
    ("C06-rs-carry-sec-gt", "C06", RSH, "            } else if dtinfo1.second >= 60 {", "            } else if dtinfo1.second > 60 {", "UTCSHIFT.rs"),
    ("C06-rs-no-roll", "C06", RSH, "            dtinfo1.normalize_date();\n", "", "UTCSHIFT.rs"),
    ("C06-rs-no-roll-2", "C06", RSH, "            dtinfo2.normalize_date();\n", "", "UTCSHIFT.rs"),
    ("C06-rs-roll-month-wrap", "C06", RSH, "            if self.month > 12 {", "            if self.month >= 12 {", "UTCSHIFT.roll"),
    ("C06-rs-roll-prev-len", "C06", RSH, "            self.month -= 1;\n\n            if self.month < 1 {\n                self.month = 12;\n                self.year -= 1;\n            }\n\n            self.day = DAYS_PER_MONTHS", "            self.day = DAYS_PER_MONTHS[usize::from(helpers::is_leap(self.year))][self.month as usize];\n            self.month -= 1;\n\n            if self.month < 1 {\n                self.month = 12;\n                self.year -= 1;\n            }\n\n            let _unused = DAYS_PER_MONTHS", "UTCSHIFT.roll"),
    ("C06-rs-order-no-us", "C06", RSH, "            self.second,\n            self.microsecond,\n        )\n            .partial_cmp(&(\n                other.year,\n                other.month,\n                other.day,\n                other.hour,\n                other.minute,\n                other.second,\n                other.microsecond,\n            ))", "            self.second,\n        )\n            .partial_cmp(&(\n                other.year,\n                other.month,\n                other.day,\n                other.hour,\n                other.minute,\n                other.second,\n            ))", "ORDER.key"),
    ("C06-py-shift-guard", "C06", PYH, "                if offset1:\n                    d1 = d1 - offset1", "                if offset1 and offset1 != offset2:\n                    d1 = d1 - offset1", "UTCSHIFT.shift"),
    ("C06-py-shift-when", "C06", PYH, "            if not in_same_tz or total_days == 0:", "            if not in_same_tz and total_days == 0:", "UTCSHIFT.when"),
    ("C11-combine-ignore-explicit", "C11", DT, "        dt = datetime.datetime.combine(date, time)\n\n        if tzinfo is not None:\n            # As for the native implementation, an explicit tzinfo\n            # takes precedence over the tzinfo of the time.\n            dt = dt.replace(tzinfo=tzinfo)\n\n        return cls.instance(dt, tz=tzinfo)", "        return cls.instance(datetime.datetime.combine(date, time), tz=tzinfo)", "CTOR.combine"),
    ("C11-combine-pass-none", "C11", DT, "        dt = datetime.datetime.combine(date, time)\n\n        if tzinfo is not None:\n            # As for the native implementation, an explicit tzinfo\n            # takes precedence over the tzinfo of the time.\n            dt = dt.replace(tzinfo=tzinfo)\n\n        return cls.instance(dt, tz=tzinfo)", "        return cls.instance(datetime.datetime.combine(date, time, tzinfo), tz=tzinfo)", "CTOR.combine"),
    ("C11-format-endswith", "C11", MIX, '            if "%" in format_spec:', '            if format_spec[0] == "%":', "FORMAT.route"),
    ("C08-default-month-from-now", "C08", FMT, '            if parsed["year"] is not None:\n                validated["month"] = parsed["month"] or 1', '            if parsed["year"] is not None and parsed["day"] is not None:\n                validated["month"] = parsed["month"] or 1', "DEFAULTS.fill"),
    ("C08-default-day-value", "C08", FMT, '                validated["day"] = parsed["day"] or 1', '                validated["day"] = parsed["day"] or now.day', "DEFAULTS.fill"),
    ("C09-factory-swap", "C09", INIT, "        minutes=minutes,\n        hours=hours,\n        weeks=weeks,\n        years=years,", "        minutes=hours,\n        hours=minutes,\n        weeks=weeks,\n        years=years,", "FACTORY.forward"),
    ("C09-hours-guard", "C09", DUR, "            if abs(seconds) >= 3600:", "            if abs(seconds) > 3600:", "RADIX.guard"),
    ("C13-rs-rank-days", "C13", RSP, "last_rank >= 4", "last_rank > 4", "ORDER-GUARD.rank"),
    ("C13-py-days-no-mark", "C13", ISO, "            if \".\" in _days:\n                fractional = True\n", "            if \".\" in _days:\n", "FRACTION.last-only"),
    ("C07-rs-sep-ordinal", "C07", RSP, "            if self.end() || self.current == ' ' || self.current == 'T' {", "            if self.end() || self.current == 'T' {", "SEPARATOR.pair"),
    ("C16-dt-nth-message", "C16", DT, "f\" of {WeekDay(day_of_week).name.capitalize()} in {unit}\"", "f\" of {day_of_week.name.capitalize()} in {unit}\"", "DISPATCH.nth-error"),
    ("C02-gap-seconds-abs", "C02", TZ, "                    + (\n                        (offset_after - offset_before)\n                        if dt.fold\n                        else (offset_before - offset_after)\n                    ),", "                    + _datetime.timedelta(seconds=(offset_after - offset_before).seconds * (1 if dt.fold else -1)),", "UNITS.offset-delta"),
    ("C15-long-year-inline-wrong", "C15", PYH, "    def p(y: int) -> int:\n        return y + y // 4 - y // 100 + y // 400\n\n    return p(year) % 7 == 4 or p(year - 1) % 7 == 3", "    a = year + year // 4 - year // 100 + year // 400\n\n    return a % 7 == 4 or (a - 1) % 7 == 3", "FORMULA.is_long_year"),
]
VARIANTS += [
    ("C08-timestamp-negative-fraction", "C08", FMT, '                if parsed["timestamp"] < 0 and microseconds:\n', '                if False:\n', "SCALE.timestamp"),
    ("C08-timestamp-complement-always", "C08", FMT, '                if parsed["timestamp"] < 0 and microseconds:\n', '                if microseconds:\n', "SCALE.timestamp"),
]
VARIANTS += [
    ("C06-py-full-month-any", "C06", PYH, "        elif (\n            d_diff == days_in_month - days_in_last_month\n            and d1.day == days_in_last_month\n        ):", "        elif d_diff == days_in_month - days_in_last_month:", "MONTHBRANCH.rebuild"),
    ("C06-rs-full-month-any", "C06", RSH, "            Ordering::Equal if dtinfo1.day == days_in_last_month => {", "            Ordering::Equal => {", "MONTHBRANCH.rebuild"),
    ("C06-py-clamped-start", "C06", PYH, "            if days_in_last_month < d1.day:\n                d_diff += d1.day", "            if days_in_last_month <= d1.day:\n                d_diff += d1.day + 1", "MONTHBRANCH.rebuild"),
]
VARIANTS += [
    ("C12-small-start-instance-fold", "C12", DT, "            return cast(\"Self\", dt if dt.naive() == forward.naive() else forward)", "            return cast(\"Self\", dt)", "FOLD.small-units"),
    ("C12-small-end-pin-forward", "C12", DT, "            backward = getattr(self.replace(fold=0), f\"_end_of_{unit}\")()", "            backward = getattr(self.replace(fold=1), f\"_end_of_{unit}\")()", "FOLD.small-units"),
    ("C16-next-no-renormalise", "C16", DT, "        dt = dt.add(days=1)\n        while dt.day_of_week != day_of_week:\n            dt = dt.add(days=1)\n\n        # The day we started from may begin later than midnight\n        return dt if keep_time else dt.start_of(\"day\")", "        dt = dt.add(days=1)\n        while dt.day_of_week != day_of_week:\n            dt = dt.add(days=1)\n\n        return dt", "NAV.shape"),
    ("C16-first-of-raw-receiver", "C16", DT, "            getattr(self._day(), f\"_first_of_{unit}\")(day_of_week).start_of(\"day\"),", "            getattr(self, f\"_first_of_{unit}\")(day_of_week).start_of(\"day\"),", "DISPATCH.name"),
    ("C16-last-of-no-midnight", "C16", DT, "            getattr(self._day(), f\"_last_of_{unit}\")(day_of_week).start_of(\"day\"),", "            getattr(self._day(), f\"_last_of_{unit}\")(day_of_week),", "DISPATCH.midnight"),
    ("C16-day-keeps-fold", "C16", DT, "        return self.start_of(\"day\").replace(fold=1)", "        return self.start_of(\"day\")", "DISPATCH.name"),
]
VARIANTS += [
    ("C08-iso8601-z-any-zone", "C08", DT, '        if self.tz and self.tz.name == "UTC":\n            string = string.replace("+00:00", "Z")', '        if self.tz:\n            string = string.replace("+00:00", "Z")', "NAMED.iso8601"),
    ("C08-to-string-callable-inverted", "C08", DT, "        if callable(fmt_value):\n            return fmt_value(self)", "        if not callable(fmt_value):\n            return fmt_value(self)", "NAMED.dispatch"),
]
VARIANTS += [
    ("C09-us-scale-wrong", "C09", DUR, "        self._microseconds = abs(total) % US_PER_SECOND * m", "        self._microseconds = abs(total) % SECONDS_PER_DAY * m", "DIVMOD"),
    ("C09-native-seconds-dropped", "C09", DUR, "            * SECONDS_PER_DAY\n            + timedelta.seconds.__get__(self)\n        ) * US_PER_SECOND", "            * SECONDS_PER_DAY\n        ) * US_PER_SECOND", "UNITS.new"),
]
VARIANTS += [
    ("C13-duration-float-total", "C13", DUR, "        self._microseconds = abs(total) % US_PER_SECOND * m", "        self._microseconds = round(self.total_seconds() % 1 * 1e6) * m", "EXACT.breakdown"),
]
BENIGN2 = [
    ("day-helper-inline", DT, ["C16"], [("            getattr(self._day(), f\"_first_of_{unit}\")(day_of_week).start_of(\"day\"),", "            getattr(self.start_of(\"day\").replace(fold=1), f\"_first_of_{unit}\")(day_of_week).start_of(\"day\"),")]),
    ("long-year-inline", PYH, ["C15"], [("    def p(y: int) -> int:\n        return y + y // 4 - y // 100 + y // 400\n\n    return p(year) % 7 == 4 or p(year - 1) % 7 == 3", "    a = year + year // 4 - year // 100 + year // 400\n    prev = year - 1\n    b = prev + prev // 4 - prev // 100 + prev // 400\n\n    return a % 7 == 4 or b % 7 == 3")]),
    ("rs-carry-gt-59", RSH, ["C06"], [("            } else if dtinfo1.second >= 60 {", "            } else if dtinfo1.second > 59 {"), ("            } else if dtinfo2.second >= 60 {", "            } else if dtinfo2.second > 59 {")]),
    ("default-day-or-order", FMT, ["C08"], [('            if parsed["year"] is not None or parsed["month"] is not None:', '            if parsed["month"] is not None or parsed["year"] is not None:')]),
    ("format-find", MIX, ["C11"], [('            if "%" in format_spec:', '            if format_spec.find("%") >= 0:')]),
    ("combine-native-tz-arg", DT, ["C11"], [("        dt = datetime.datetime.combine(date, time)\n\n        if tzinfo is not None:\n            # As for the native implementation, an explicit tzinfo\n            # takes precedence over the tzinfo of the time.\n            dt = dt.replace(tzinfo=tzinfo)\n", "        if tzinfo is not None:\n            dt = datetime.datetime.combine(date, time, tzinfo)\n        else:\n            dt = datetime.datetime.combine(date, time)\n")]),
    ("closest-abs", TIME, ["C20"], [("        if self.diff(dt1).total_seconds() < self.diff(dt2).total_seconds():", "        if abs(self.diff(dt1).total_seconds()) < abs(self.diff(dt2).total_seconds()):")]),
    ("minutes-guard-weaker", DUR, ["C09", "C18"], [("            if abs(seconds) >= 60:", "            if abs(seconds) > 0:")]),
    ("py-shift-is-not-none", PYH, ["C06"], [("                if offset1:\n                    d1 = d1 - offset1", "                if offset1 is not None:\n                    d1 = d1 - offset1")]),
]
for _name, _file, _props, _pairs in BENIGN2:
    for _p in _props:
        VARIANTS.append((f"{_p}-benign-{_name}", _p, _file, [(a, b) for a, b in _pairs], None, None, None))

# ---------------------------------------------------------------------------
# independently seeded changes kept under /verif/seeded/<id>/ (see DESIGN 9.2): each must be reported by the check of
# the property it was written for
import json as _json
import os as _os
_SEED_ROOT = _os.path.join(_os.path.dirname(_os.path.dirname(_os.path.dirname(_os.path.abspath(__file__)))), "seeded")
if _os.path.isdir(_SEED_ROOT):
    for _sid in sorted(_os.listdir(_SEED_ROOT)):
        _mf = _os.path.join(_SEED_ROOT, _sid, "meta.json")
        if _os.path.exists(_mf):
            _m = _json.load(open(_mf))
            # a seed whose change stopped being a defect after a later fix of /repo (`superseded` says which) must now stay quiet
            VARIANTS.append((f"{_m['property']}-seed-{_sid}", _m["property"], "PATCH", f"seeded/{_sid}/patch.diff", None,
                             None if _m.get("superseded") else "VIOLATION property=" + _m["property"]))

TZI = "src/pendulum/tz/__init__.py"
VARIANTS += [
    ("C01-cache-key-abs", "C01", TZI, "    if offset in _tz_cache:\n        return _tz_cache[offset]", "    if abs(offset) in _tz_cache:\n        return _tz_cache[abs(offset)]", "ZONE.cache"),
    ("C01-cache-store-key", "C01", TZI, "    _tz_cache[offset] = tz\n", "    _tz_cache[abs(offset)] = tz\n", "ZONE.cache"),
    ("C01-hours-minutes", "C01", INIT, "        obj = int(obj * 60 * 60)", "        obj = int(obj * 60)", "ZONE.resolve"),
    ("C01-utc-case", "C01", INIT, '    if name.lower() == "utc":\n        return UTC', '    if name == "utc":\n        return UTC', "ZONE.resolve"),
    ("C01-get-offset-seconds", "C01", DT, "        return int(utcoffset.total_seconds())", "        return utcoffset.seconds", "ACCESSOR"),
]

# ---------------------------------------------------------------------------
# behaviour-preserving refactorings written by independent sub-agents (see DESIGN 9.3), kept under /verif/benign/<id>/:
# the check of the property they were written for (and of the properties sharing the code) must stay quiet
_BENIGN_ROOT = _os.path.join(_os.path.dirname(_SEED_ROOT), "benign")
if _os.path.isdir(_BENIGN_ROOT):
    for _bid in sorted(_os.listdir(_BENIGN_ROOT)):
        _mf = _os.path.join(_BENIGN_ROOT, _bid, "meta.json")
        if _os.path.exists(_mf):
            _m = _json.load(open(_mf))
            for _p in [_m["property"]] + list(_m.get("also_run_under") or []):
                VARIANTS.append((f"{_p}-benign-{_bid}", _p, "PATCH", f"benign/{_bid}/patch.diff", None, None))

# ---------------------------------------------------------------------------
# alternative correct repairs written by independent sub-agents (see DESIGN 9.4), kept under /verif/altfix/<id>/: one earlier
# fix of /repo reverted and the defect repaired another way.  The checks of every property that consults the changed
# files must stay quiet (UNVERIFIED lines are acceptable)
_ALT_ROOT = _os.path.join(_os.path.dirname(_SEED_ROOT), "altfix")
if _os.path.isdir(_ALT_ROOT):
    for _aid in sorted(_os.listdir(_ALT_ROOT)):
        _mf = _os.path.join(_ALT_ROOT, _aid, "meta.json")
        if _os.path.exists(_mf):
            _m = _json.load(open(_mf))
            for _p in _m.get("run_under") or []:
                VARIANTS.append((f"{_p}-altfix-{_aid}", _p, "PATCH", f"altfix/{_aid}/patch.diff", None, None))
