"""DateTime +/- the AbsoluteDuration returned by Time.diff() must work."""
import datetime
import sys

import pendulum

from pendulum.duration import AbsoluteDuration

failures = []
utc = datetime.timezone.utc


def native(dt):
    return datetime.datetime(
        dt.year, dt.month, dt.day, dt.hour, dt.minute, dt.second, dt.microsecond,
        tzinfo=utc,
    ) - dt.utcoffset()


def attempt(label, fn, expected):
    try:
        got = fn()
    except Exception as e:  # noqa: BLE001
        failures.append(f"{label}: raised {type(e).__name__}: {e}")
        return
    if native(got) != expected:
        failures.append(f"{label}: got {got}, expected {expected}")


times = [
    ((12, 0, 0, 0), (10, 30, 15, 0)),
    ((10, 30, 15, 0), (12, 0, 0, 0)),
    ((0, 0, 0, 0), (23, 59, 59, 999999)),
    ((7, 8, 9, 250000), (7, 8, 9, 250000)),
    ((1, 2, 3, 4), (5, 6, 7, 800000)),
]
starts = [
    (pendulum.datetime(2020, 1, 1), datetime.datetime(2020, 1, 1, tzinfo=utc)),
    (
        pendulum.datetime(2013, 3, 31, 1, 30, tz="Europe/Paris"),
        datetime.datetime(2013, 3, 31, 0, 30, tzinfo=utc),
    ),
]

for a, b in times:
    diff = pendulum.time(*a).diff(pendulum.time(*b))
    if not isinstance(diff, AbsoluteDuration):
        failures.append(f"Time.diff returned {type(diff)}")
    # |b - a| with the standard library
    td = abs(
        datetime.datetime(2000, 1, 1, *b) - datetime.datetime(2000, 1, 1, *a)
    )
    for dt, ndt in starts:
        attempt(f"{dt} + diff{a}{b}", lambda: dt + diff, ndt + td)
        attempt(f"diff{a}{b} + {dt}", lambda: diff + dt, ndt + td)
        attempt(f"{dt} - diff{a}{b}", lambda: dt - diff, ndt - td)

# an absolute duration built by hand: every component counts with its absolute value
d = AbsoluteDuration(weeks=-1, days=-3, hours=-30, minutes=-5, microseconds=-1)
td = datetime.timedelta(weeks=1, days=3, hours=30, minutes=5, microseconds=1)
attempt("dt + AbsoluteDuration", lambda: pendulum.datetime(2021, 6, 1) + d,
        datetime.datetime(2021, 6, 1, tzinfo=utc) + td)
d = AbsoluteDuration(years=-1, months=2, days=1)
attempt("dt + AbsoluteDuration(y, m)", lambda: pendulum.datetime(2021, 6, 1) + d,
        datetime.datetime(2022, 8, 2, tzinfo=utc))

if failures:
    print("\n".join(failures))
    sys.exit(1)
print("ok")
