"""A time without minutes ('2:', '2::30', ...) is rejected with ParserError (not TypeError);
times with minutes keep their hand-computed values."""
import datetime
import sys

import pendulum
from pendulum.parsing import parse as base_parse
from pendulum.parsing.exceptions import ParserError

failures = []

invalid = ["2:", "02:", "2::30", "2:.5", "2::30.5", "2020/01/01 2:", "2020/01/01 02::15", "20200101 2:"]
for text in invalid:
    for fn, name in ((pendulum.parse, "pendulum.parse"), (base_parse, "pendulum.parsing.parse")):
        for exact in (False, True):
            try:
                value = fn(text, exact=exact)
            except ParserError:
                pass
            except BaseException as e:
                failures.append(f"{name}({text!r}, exact={exact}): {type(e).__name__}: {e}")
            else:
                failures.append(f"{name}({text!r}, exact={exact}): returned {value!r}")

valid = {
    "2:5": datetime.time(2, 5),
    "2:05:7": datetime.time(2, 5, 7),
    "12:34:56.5": datetime.time(12, 34, 56, 500000),
    "2020:01:01 2:05": datetime.datetime(2020, 1, 1, 2, 5),
    "2020/01/01 2:5:9,25": datetime.datetime(2020, 1, 1, 2, 5, 9, 250000),
}
for text, expected in valid.items():
    try:
        got = base_parse(text, exact=True)
        if got != expected:
            failures.append(f"{text!r}: {got!r} != {expected!r}")
    except BaseException as e:
        failures.append(f"{text!r}: {type(e).__name__}: {e}")

for f in failures:
    print("FAIL", f)
print("ok" if not failures else f"{len(failures)} failure(s)")
sys.exit(1 if failures else 0)
