"""C08 — format() tokens and from_format() (table agreement clauses)."""
from __future__ import annotations

import ast
import re

from .. import cfg, core, rx
from ..core import nun, pmod, un
from ..rules.canon import Canon
from . import C07

EXPLANATION = (
    "Decided statically by table agreement: (1) the finite token language of Formatter._TOKENS (expanded from "
    "the regex AST) contains every token documented in docs/docs/string_formatting.md and each documented token "
    "reaches a handler in _format_token/_format_localizable_token (none falls through to `return token`); "
    "(2) every documented token that from_format can match (regex entry or localized candidates) has a parse "
    "lambda and an arm of _get_parsed_value/_get_parsed_locale_value that stores into the slot its meaning "
    "requires, and the slots written = initialised = read by _check_parsed; (3) per-token width/scale "
    "agreement derived from the token itself: S^n renders microsecond // 10^(6-n) padded to n and parses "
    "int * 10^(6-n); two-letter numeric tokens pad to 2 with a strict \\d\\d regex; DDDD pads to 3; hh/h use "
    "% 12 or 12, A switches at hour >= 12 and the meridiem fix-up is %12 (+12 for pm); (4) Z/ZZ rendering "
    "(sign from the offset, divmod(abs(minutes), 60), ':' only for Z) and the offset parse arm; (5) named "
    "formats: _FORMATS[k] is the constant K / the isoformat lambda, to_<k>_string calls _to_string('<k>'), "
    "constants aliases; to_iso8601_string rewrites +00:00 only for the zone named UTC; (6) from_format "
    "forwards tz/locale and fills a missing tz; (7) the z token's pattern admits three-part IANA names and the values are "
    "extracted from the anchored match (a localized name that is a prefix of another must not win). NOT decided: equality with strftime for every value (the value rules below decide it on their tables), regex "
    "backtracking on literal separators, zone abbreviations of tz-database zones."
    " Also: _check_parsed's defaulting lattice - an absent date field is reset to 1 exactly when a coarser field was parsed, otherwise taken from `now`; absent time fields are 0; the year is settled before day-of-year/day-of-week use it."
    " As built (value rules): RENDER.tabulated, ROUNDTRIP.tabulated, NOWFILL.tabulated and NOMATCH.tabulated evaluate Formatter.format and Formatter.parse - with the class-level token tables, Locale (locales/locale.py) and the locale literals they read - with the checker's interpreter in the formatter world of rules/fmtstub.py (DateTime values of the wall-clock world at a fixed offset, `re` of the standard library): every documented token and 9 token sequences with [escapes] on 22 DateTimes (240 more in the thorough tier) x 5 offsets against the documented rendering computed from the standard library; 24 full formats (every fraction width, ordinal day, 12-hour clock, two-digit years inside the POSIX window, weekday tokens beside a date), X / x, IANA names through z, and month / day names of all 27 locales formatted then parsed; time-only formats take the date of `now`; strings that do not match raise ValueError. Known finding (known_findings.json): the weekday token d is rendered with 0 = Sunday and parsed with 0 = Monday."
)

FMT = "formatting.formatter"
SLOT = {  # token -> slot of `parsed` its value belongs to
    "YYYY": "year", "YY": "year", "Y": "year", "Q": "quarter", "MM": "month", "M": "month", "MMMM": "month",
    "MMM": "month", "DDDD": "day_of_year", "DDD": "day_of_year", "DD": "day", "D": "day", "Do": "day",
    "dddd": "day_of_week", "ddd": "day_of_week", "dd": "day_of_week", "d": "day_of_week", "E": "day_of_week",
    "HH": "hour", "H": "hour", "hh": "hour", "h": "hour", "mm": "minute", "m": "minute", "ss": "second",
    "s": "second", "S": "microsecond", "SS": "microsecond", "SSS": "microsecond", "SSSS": "microsecond",
    "SSSSS": "microsecond", "SSSSSS": "microsecond", "A": "meridiem", "a": "meridiem", "X": "timestamp",
    "x": "timestamp", "Z": "tz", "ZZ": "tz", "z": "tz",
}
# rendering rule of a numeric token: (canonical value expression, format spec)
RENDER = {
    "YYYY": ("dt.year", "d"), "Y": ("dt.year", "d"), "Q": ("dt.quarter", "d"),
    "MM": ("dt.month", "02d"), "M": ("dt.month", "d"), "DD": ("dt.day", "02d"), "D": ("dt.day", "d"),
    "DDDD": ("dt.day_of_year", "03d"), "DDD": ("dt.day_of_year", "d"),
    "d": ("(dt.day_of_week + 1) % 7", "d"), "E": ("dt.isoweekday()", "d"),
    "HH": ("dt.hour", "02d"), "H": ("dt.hour", "d"), "hh": ("dt.hour % 12 or 12", "02d"), "h": ("dt.hour % 12 or 12", "d"),
    "mm": ("dt.minute", "02d"), "m": ("dt.minute", "d"), "ss": ("dt.second", "02d"), "s": ("dt.second", "d"),
    "X": ("dt.int_timestamp", "d"), "x": ("dt.int_timestamp * 1000 + dt.microsecond // 1000", "d"),
}
for _n in range(1, 7):
    RENDER["S" * _n] = (f"dt.microsecond // {10 ** (6 - _n)}" if _n < 6 else "dt.microsecond", f"0{_n}d")
STRICT_WIDTH = {"YYYY": (4, 4), "YY": (2, 2), "MM": (2, 2), "DD": (2, 2), "DDDD": (3, 3), "HH": (2, 2), "hh": (2, 2),
                "mm": (2, 2), "ss": (2, 2), "S": (1, 1), "SS": (2, 2), "SSS": (3, 3)}


def documented_tokens() -> list[str]:
    p = core.REPO / "docs/docs/string_formatting.md"
    if not p.exists():
        raise core.AnchorMissing("docs/docs/string_formatting.md (definition of 'documented token') not found")
    toks = []
    for ln in p.read_text().splitlines():
        if not ln.startswith("|"):
            continue
        cols = [c.strip() for c in ln.strip().strip("|").split("|")]
        if len(cols) < 3 or set(cols[1]) <= set("- ") or cols[1] in ("Token", ""):
            continue
        t = cols[1].split()[0]
        if re.fullmatch(r"[A-Za-z]+", t):
            toks.append(t)
    return toks


def token_language() -> set[str]:
    pat = core.const(FMT, "_TOKENS", "Formatter")
    tree = rx.parse(pat)
    top = list(tree)
    if len(top) != 1 or top[0][0] is not rx.C.BRANCH:
        raise core.Unsupported("_TOKENS is not a top-level alternation")
    alts = top[0][1][1]
    return rx.language(alts[-1])


def _chain(fn: ast.FunctionDef, var: str = "token") -> list[tuple[ast.expr | None, list[ast.stmt]]]:
    """Flatten the top-level if / elif / else ladder(s) on `var` into [(test, body)], last = fall-through."""
    out: list[tuple[ast.expr | None, list[ast.stmt]]] = []

    def add_if(node: ast.If):
        out.append((node.test, node.body))
        if len(node.orelse) == 1 and isinstance(node.orelse[0], ast.If):
            add_if(node.orelse[0])
        elif node.orelse:
            out.append((None, node.orelse))

    body = core.body_no_doc(fn)
    rest: list[ast.stmt] = []
    for st in body:
        if isinstance(st, ast.If) and var in un(st.test):
            add_if(st)
        else:
            rest.append(st)
    if not out or out[-1][0] is not None:
        tail = [s for s in rest if isinstance(s, (ast.Return, ast.Raise))]
        out.append((None, tail))
    return out


def _ev(test: ast.expr, token: str, tables: dict[str, set[str]]) -> bool:
    if isinstance(test, ast.BoolOp):
        vals = [_ev(v, token, tables) for v in test.values]
        return any(vals) if isinstance(test.op, ast.Or) else all(vals)
    if isinstance(test, ast.UnaryOp) and isinstance(test.op, ast.Not):
        return not _ev(test.operand, token, tables)
    if isinstance(test, ast.Compare) and len(test.ops) == 1:
        l, r, op = test.left, test.comparators[0], test.ops[0]

        def val(n):
            if un(n) == "token":
                return token
            if isinstance(n, ast.Constant):
                return n.value
            if isinstance(n, (ast.List, ast.Tuple, ast.Set)):
                return [val(e) for e in n.elts]
            d = core.dotted(n)
            if d and d.startswith("self.") and d[5:] in tables:
                return tables[d[5:]]
            raise core.Unsupported(f"operand `{un(n)}`")
        a, b = val(l), val(r)
        if isinstance(op, ast.In):
            return a in b
        if isinstance(op, ast.NotIn):
            return a not in b
        if isinstance(op, ast.Eq):
            return a == b
        if isinstance(op, ast.NotEq):
            return a != b
    raise core.Unsupported(f"token test `{un(test)}`")


def _arm_for(chain, token: str, tables) -> tuple[int, list[ast.stmt]]:
    for i, (t, body) in enumerate(chain):
        if t is None or _ev(t, token, tables):
            return i, body
    return -1, []


def _tables(m: core.Mod) -> dict[str, dict]:
    out = {}
    for name in ("_LOCALIZABLE_TOKENS", "_TOKENS_RULES", "_DATE_FORMATS", "_DEFAULT_DATE_FORMATS", "_REGEX_TOKENS", "_PARSE_TOKENS"):
        node = m.assign(name, "Formatter")
        out[name] = core.fold(node, m, "Formatter")
    return out


def _writer(ctx, m, T, docs, lang) -> None:
    keys = {k: set(v) for k, v in T.items()}
    ctx.count("token_language", len(lang))
    ctx.count("documented_tokens", len(docs))
    ft = m.func("Formatter._format_token")
    fl = m.func("Formatter._format_localizable_token")
    ch_t, ch_l = _chain(ft), _chain(fl)
    try:
        ft_paths = cfg.paths(ft)
    except core.Unsupported:
        ft_paths = []
    for tok in docs:
        ctx.ob("TABLES.language", f"token/{tok}", tok in lang,
               f"documented token {tok} is {'in' if tok in lang else 'NOT in'} the language of Formatter._TOKENS "
               f"({len(lang)} tokens); format() would emit it verbatim", m.rel)
        try:
            i, body = _arm_for(ch_t, tok, keys)
            last = i == len(ch_t) - 1
            handled = not last
            where = f"_format_token arm {i}"
            # shape-independent: the token is rendered verbatim iff some path whose tests on `token` hold for it returns `token`
            try:
                verb = live_n = 0
                for p in ft_paths:
                    live = True
                    for t, pol in p.assumes():
                        if "token" not in t:
                            continue
                        try:
                            if _ev(ast.parse(t, mode="eval").body, tok, keys) != pol:
                                live = False
                                break
                        except core.Unsupported:
                            pass
                    if live:
                        live_n += 1
                        ex = p.exit()
                        if ex[1] == "return" and nun(ex[2].value) == "token":
                            verb += 1
                if live_n:
                    handled = verb == 0
                    if handled and last:
                        where = "_format_token (path analysis)"
                        body = [s_ for p in ft_paths for s_ in p.stmts()]
            except (core.Unsupported, SyntaxError):
                pass
            if handled and any("_format_localizable_token" in un(s) for s in body) and not last:
                j, b2 = _arm_for(ch_l, tok, keys)
                handled = j != len(ch_l) - 1
                where = f"_format_localizable_token arm {j}"
        except core.Unsupported as e:
            ctx.unverified("TABLES.handler", f"token/{tok}", str(e), m.rel)
            continue
        ctx.ob("TABLES.handler", f"token/{tok}", handled,
               f"documented token {tok} -> {where}" + ("" if handled else ": falls through to `return token` (rendered verbatim)"),
               m.rel)


def _reader(ctx, m, T, docs) -> None:
    keys = {k: set(v) for k, v in T.items()}
    gv = m.func("Formatter._get_parsed_value")
    gl = m.func("Formatter._get_parsed_locale_value")
    ch_v, ch_l = _chain(gv), _chain(gl)
    written: set[str] = set()
    for tok in docs:
        rxe = T["_REGEX_TOKENS"].get(tok, "<absent>")
        loc = tok in T["_LOCALIZABLE_TOKENS"]
        matchable = (loc and T["_LOCALIZABLE_TOKENS"][tok] is not None) or (not loc and rxe not in ("<absent>", None))
        if not matchable:
            continue   # from_format rejects the token with ValueError("Unsupported token") - allowed
        want = SLOT.get(tok)
        try:
            if loc:
                i, body = _arm_for(ch_l, tok, keys)
                handled = i != len(ch_l) - 1
            else:
                ok_pt = tok in T["_PARSE_TOKENS"]
                ctx.ob("TABLES.parse-entry", f"token/{tok}", ok_pt,
                       f"token {tok} has a from_format regex but {'a' if ok_pt else 'NO'} _PARSE_TOKENS entry "
                       f"(Formatter._get_parsed_value indexes the table unconditionally -> KeyError)", m.rel)
                i, body = _arm_for(ch_v, tok, keys)
                handled = i != len(ch_v) - 1
        except core.Unsupported as e:
            ctx.unverified("TABLES.parse-arm", f"token/{tok}", str(e), m.rel)
            continue
        slots = {nun(t.slice) for s in body for n in ast.walk(s) if isinstance(n, ast.Assign) for t in n.targets
                 if isinstance(t, ast.Subscript) and nun(t.value) == "parsed"}
        slots = {ast.literal_eval(x) if x.startswith("'") else x for x in slots}
        # the month / weekday name arms store into parsed[unit]
        units = {n.value.value for s in body for n in ast.walk(s) if isinstance(n, ast.Assign)
                 and nun(n.targets[0]) == "unit" and isinstance(n.value, ast.Constant)}
        if "unit" in slots or (loc and units):
            slots = (slots - {"unit"}) | units
        written |= slots
        ctx.ob("TABLES.parse-arm", f"token/{tok}", handled and want in slots,
               f"token {tok} is handled by arm {i} which stores into {sorted(slots)}; its meaning requires parsed[{want!r}]",
               m.rel)
    # slots initialised / read
    pf = m.func("Formatter.parse")
    init = None
    for n in core.walk_fn(pf):
        if isinstance(n, ast.Assign) and nun(n.targets[0]) == "parsed" and isinstance(n.value, ast.Dict):
            init = {k.value for k in n.value.keys if isinstance(k, ast.Constant)}
    cp = m.func("Formatter._check_parsed")
    read = {n.slice.value for n in core.walk_fn(cp) if isinstance(n, ast.Subscript) and nun(n.value) == "parsed"
            and isinstance(n.slice, ast.Constant)}
    if init is None:
        ctx.unverified("TABLES.slots", "Formatter.parse", "`parsed = {...}` not found", m.rel)
    else:
        ctx.ob("TABLES.slots", "parsed/written-subset-initialised", written <= init, f"written {sorted(written - init)} not initialised", m.rel)
        ctx.ob("TABLES.slots", "parsed/written-subset-read", written <= read,
               f"slots written by the token arms but never read by _check_parsed: {sorted(written - read)}", m.rel)


def _truth(e: ast.expr):
    """truth table of a boolean combination of atoms; `X is not None` is the negation of the atom `X is None`"""
    atoms: list[str] = []

    def atom(n):
        n = core.strip_casts(n)
        if isinstance(n, ast.Compare) and len(n.ops) == 1 and isinstance(n.ops[0], ast.IsNot):
            return nun(ast.Compare(n.left, [ast.Is()], n.comparators)), True
        return nun(n), False

    def ev(n, env):
        n = core.strip_casts(n)
        if isinstance(n, ast.BoolOp):
            vals = [ev(v, env) for v in n.values]
            return all(vals) if isinstance(n.op, ast.And) else any(vals)
        if isinstance(n, ast.UnaryOp) and isinstance(n.op, ast.Not):
            return not ev(n.operand, env)
        a, neg = atom(n)
        return env[a] != neg

    def collect(n):
        n = core.strip_casts(n)
        if isinstance(n, ast.BoolOp):
            for v in n.values:
                collect(v)
        elif isinstance(n, ast.UnaryOp) and isinstance(n.op, ast.Not):
            collect(n.operand)
        else:
            a, _ = atom(n)
            if a not in atoms:
                atoms.append(a)
    collect(e)
    atoms.sort()
    sat = set()
    for bits in range(1 << len(atoms)):
        env = {a: bool(bits >> i & 1) for i, a in enumerate(atoms)}
        if ev(e, env):
            sat.add(frozenset(a for a in atoms if env[a]))
    return tuple(atoms), frozenset(sat)


def _defaulting(ctx, m: core.Mod) -> None:
    """'fields absent from the format are filled from the supplied now': a date field that was not parsed takes now's
    value unless a coarser field was parsed, in which case it takes its minimum; absent time fields are 0"""
    cp = m.func("Formatter._check_parsed")
    nowp = core.params(cp)[-1]
    order = ["year", "month", "day"]
    blocks = {}
    for st in core.body_no_doc(cp):
        if isinstance(st, ast.If) and isinstance(st.test, ast.Compare) and isinstance(st.test.ops[0], ast.Is) \
                and core.is_const(st.test.comparators[0], None) and isinstance(st.test.left, ast.Subscript) \
                and nun(st.test.left.value) == "validated" and isinstance(st.test.left.slice, ast.Constant):
            blocks[st.test.left.slice.value] = st
    st = blocks.get("year")
    ok = st is not None and [nun(s) for s in st.body] == [f"validated['year'] = {nowp}.year"] and not st.orelse
    ctx.ob("DEFAULTS.fill", "_check_parsed/year", ok, f"`{nun(st)[:80] if st else None}`; an absent year is {nowp}.year", m.loc(st or cp))
    for i, f in enumerate(order[1:], 1):
        st = blocks.get(f)
        if st is None or len(st.body) != 1 or not isinstance(st.body[0], ast.If) or len(st.body[0].body) != 1 or len(st.body[0].orelse) != 1:
            ctx.unverified("DEFAULTS.fill", f"_check_parsed/{f}", "defaulting block not in the `if validated[f] is None: if <coarser parsed>: ... else: ...` form", m.loc(st or cp))
            continue
        inner = st.body[0]
        want = ast.parse(" or ".join(f"parsed['{c}'] is not None" for c in order[:i]), mode="eval").body
        same = _truth(inner.test) == _truth(want)
        ctx.ob("DEFAULTS.fill", f"_check_parsed/{f}/when-reset", same,
               f"an absent {f} is reset to 1 under `{nun(inner.test)}`; it must be exactly when any coarser field "
               f"({', '.join(order[:i])}) was parsed - otherwise it is taken from {nowp} (e.g. 'MM' alone parsed on the 31st gives Feb 31)", m.loc(inner))
        a, b = nun(inner.body[0]), nun(inner.orelse[0])
        ok = a in (f"validated['{f}'] = parsed['{f}'] or 1", f"validated['{f}'] = 1") and \
            b in (f"validated['{f}'] = parsed['{f}'] or {nowp}.{f}", f"validated['{f}'] = {nowp}.{f}")
        ctx.ob("DEFAULTS.fill", f"_check_parsed/{f}/values", ok, f"reset `{a}`, fill `{b}`; must be 1 and {nowp}.{f}", m.loc(inner))
    loops = [s for s in core.body_no_doc(cp) if isinstance(s, ast.For)]
    ok = False
    parts = []
    for lp in loops:
        try:
            parts = list(core.fold(lp.iter, m))
        except Exception:
            continue
        body = [nun(s) for s in lp.body]
        v = nun(lp.target)
        ok = sorted(parts) == ["hour", "microsecond", "minute", "second"] and body == [f"if validated[{v}] is None:\n    validated[{v}] = 0"]
    ctx.ob("DEFAULTS.fill", "_check_parsed/time-fields", ok, f"absent time fields {parts} are set to 0", m.loc(loops[-1] if loops else cp))
    # order: the year must be settled before day_of_year / day_of_week use it, month/day defaults come after them
    body = core.body_no_doc(cp)
    pos = {k: body.index(v) for k, v in blocks.items() if v in body}
    users = [i for i, s in enumerate(body) if isinstance(s, ast.If) and nun(s.test) in ("parsed['day_of_year'] is not None", "parsed['day_of_week'] is not None")]
    if users and {"year", "month", "day"} <= set(pos):
        ctx.ob("DEFAULTS.order", "_check_parsed/year-first", pos["year"] < min(users) and max(users) < min(pos["month"], pos["day"]),
               "the year default precedes the day-of-year / day-of-week resolution, which precedes the month/day defaults", m.loc(cp))


def _timestamp_fraction(ctx, m: core.Mod) -> None:
    """X/x: the parsed timestamp goes to local_time(ts, 0, microseconds), which floors ts (C15 LOCALTIME); the
    microseconds must therefore be the distance *above the floor*.  Digits taken from the decimal text of ts are the
    distance from truncation toward zero - for a negative ts they have to be complemented."""
    cp = m.func("Formatter._check_parsed")
    calls = [c for c in core.calls(cp) if nun(c.func).split(".")[-1] == "local_time" and len(c.args) == 3]
    if len(calls) != 1:
        ctx.unverified("SCALE.timestamp", "_check_parsed/local_time", f"{len(calls)} local_time(ts, offset, microseconds) calls", m.loc(cp))
        return
    c = calls[0]
    ts, us = nun(c.args[0]), c.args[2]
    if not isinstance(us, ast.Name):
        ctx.unverified("SCALE.timestamp", "_check_parsed/local_time", f"microseconds argument `{nun(us)}`", m.loc(c))
        return
    defs = core.assigns_to(cp, us.id)
    texts = [nun(d) for d in defs]
    from_digits = [t for t in texts if ".split('.')" in t]
    floor_based = [t for t in texts if "math.floor" in t or "% 1" in t or "divmod(" in t]
    if floor_based and not from_digits:
        ctx.ob("SCALE.timestamp", "_check_parsed/fraction", True, f"fraction computed above the floor: {floor_based}", m.loc(c))
        return
    if not from_digits:
        ctx.unverified("SCALE.timestamp", "_check_parsed/fraction", f"microseconds defined as {texts}", m.loc(c))
        return
    comp = None
    for n in core.walk_fn(cp):
        if isinstance(n, ast.Assign) and nun(n.targets[0]) == us.id and isinstance(n.value, ast.BinOp) and isinstance(n.value.op, ast.Sub) \
                and nun(n.value.right) == us.id:
            try:
                if core.fold(n.value.left, m) == 10**6:
                    comp = n
            except Exception:
                pass
    guard_ok = False
    if comp is not None and isinstance(comp._parent, ast.If):
        _, sat = _truth(comp._parent.test)
        atoms = _truth(comp._parent.test)[0]
        neg = f"{ts} < 0"
        guard_ok = neg in atoms and all(neg in s_ for s_ in sat) and all(a in (neg, us.id, f"{us.id} > 0", f"{us.id} != 0") for a in atoms)
    ctx.ob("SCALE.timestamp", "_check_parsed/fraction", comp is not None and guard_ok,
           f"microseconds come from the decimal digits of str({ts}) ({from_digits[0][:60]}); "
           + (f"complemented under `{nun(comp._parent.test)}`" if comp is not None and guard_ok else
              "local_time() floors a negative timestamp, so without `1000000 - microseconds` for ts < 0 an instant before 1970 with a "
              "fraction comes back mirrored (…51.999 -> …51.001)"), m.loc(c))


def _fmt_lambda(lam: core.Lambda) -> tuple[str, str] | None:
    """f"{expr:spec}" -> (canonical expr, spec)"""
    b = lam.node.body
    if isinstance(b, ast.JoinedStr) and len(b.values) == 1 and isinstance(b.values[0], ast.FormattedValue):
        fv = b.values[0]
        spec = ""
        if fv.format_spec is not None:
            spec = "".join(v.value for v in fv.format_spec.values if isinstance(v, ast.Constant))
        return un(fv.value), spec
    return None


def _width_scale(ctx, m, T) -> None:
    can = Canon()
    rules = T["_TOKENS_RULES"]
    for tok, (expr, spec) in RENDER.items():
        lam = rules.get(tok)
        if not isinstance(lam, core.Lambda):
            ctx.ob("RENDER.rule", f"token/{tok}", False, f"no rendering lambda for {tok} in _TOKENS_RULES", m.rel)
            continue
        got = _fmt_lambda(lam)
        if got is None:
            ctx.unverified("RENDER.rule", f"token/{tok}", f"`{un(lam.node)}`", m.rel)
            continue
        want_e = can.s(ast.parse(expr, mode="eval").body)
        gnode = ast.parse(got[0], mode="eval").body
        if isinstance(gnode, ast.BinOp) and isinstance(gnode.op, ast.FloorDiv) and core.is_const(gnode.right, 1) and isinstance(gnode.left, ast.Attribute) \
                and gnode.left.attr in ("year", "month", "day", "hour", "minute", "second", "microsecond"):
            gnode = gnode.left          # an integer field floor-divided by 1
        got_e = can.s(gnode)
        ctx.ob("RENDER.rule", f"token/{tok}", got_e == want_e and got[1] == spec,
               f"{tok} renders `{got[0]}` with format `{got[1]}`; the token means `{expr}` padded as `{spec}`", m.rel)
    yy = rules.get("YY")
    ctx.ob("RENDER.rule", "token/YY", isinstance(yy, core.Lambda) and nun(yy.node.body) == "f'{dt.year:d}'[2:]",
           f"YY renders `{un(yy.node.body) if isinstance(yy, core.Lambda) else yy}`; must be the last two digits of the year", m.rel)
    # parse scale of S^n
    pt = T["_PARSE_TOKENS"]
    for n in range(1, 7):
        tok = "S" * n
        lam = pt.get(tok)
        if not isinstance(lam, core.Lambda):
            continue
        arg = lam.node.args.args[0].arg
        want = can.s(ast.parse(f"int({arg}) * {10 ** (6 - n)}", mode="eval").body).replace(f"int({arg})", arg)
        got = can.s(lam.node.body)
        ctx.ob("SCALE.parse", f"token/{tok}", got in (want, can.s(ast.parse(f"{arg} * {10 ** (6 - n)}", mode='eval').body)),
               f"{tok} parses as `{un(lam.node.body)}`; {n} fraction digit(s) are worth 10^{6 - n} microseconds each", m.rel)
    # strict regex widths
    rt = T["_REGEX_TOKENS"]
    for tok, (lo, hi) in STRICT_WIDTH.items():
        e = rt.get(tok)
        strict = e[-1] if isinstance(e, tuple) else e
        if not isinstance(strict, str):
            ctx.unverified("WIDTH.regex", f"token/{tok}", f"entry {e!r}", m.rel)
            continue
        w = rx._width(rx.parse(strict))
        ctx.ob("WIDTH.regex", f"token/{tok}", (w[0], w[1]) == (lo, hi) and w[2],
               f"strict regex of {tok} is `{strict}` (width {w[0]}..{w[1]}, digits only: {w[2]}); the token renders exactly {lo} digits",
               m.rel)
    # A / meridiem
    fl = m.func("Formatter._format_localizable_token")
    arm = [b for t, b in _chain(fl) if t is not None and un(t) == "token == 'A'"]
    ok = False
    if arm:
        ifs = [s for s in arm[0] if isinstance(s, ast.If)]
        ok = len(ifs) == 1 and nun(ifs[0].test) == "dt.hour >= 12" and "'.pm'" in un(ifs[0].body[0]) and "'.am'" in un(ifs[0].orelse[0])
    ctx.ob("MERIDIEM", "format/A", ok, "A must render pm exactly for hour >= 12", m.rel)
    cp = m.func("Formatter._check_parsed")
    src = [nun(s) for s in ast.walk(cp) if isinstance(s, (ast.AugAssign, ast.Assign))]
    ok = "validated['hour'] %= 12" in src and "validated['hour'] += 12" in src and "pm = parsed['meridiem'] == 'pm'" in src
    ctx.ob("MERIDIEM", "parse/meridiem", ok, "12-hour values are reduced with % 12 and pm adds 12", m.rel)


def _offset_render_tabulate(ctx, m) -> bool | None:
    """Z / ZZ render the UTC offset of the value: decided by evaluating Formatter._format_token with the checker's
    interpreter on stub values (a `dt` whose utcoffset() is a given timedelta; the token tables taken from the class)."""
    import datetime as _dtm
    from types import SimpleNamespace as NS
    from ..rules import minieval
    ft = m.func("Formatter._format_token")
    tabs = {}
    for name in ("_DATE_FORMATS", "_LOCALIZABLE_TOKENS", "_TOKENS_RULES"):
        try:
            v = core.fold(m.assign(name, "Formatter"), m, "Formatter")
            tabs[name] = set(v.keys()) if isinstance(v, dict) else set(v)
        except Exception:       # noqa: BLE001
            tabs[name] = set()
    if {"Z", "ZZ"} & (tabs["_DATE_FORMATS"] | tabs["_LOCALIZABLE_TOKENS"] | tabs["_TOKENS_RULES"]):
        return None
    selfo = NS(**tabs)
    bad, n = [], 0
    try:
        for mins in (0, 60, -60, 330, -330, 345, -210, 840, -720, 1, -1, 59, -59, 1439, -1439):
            off = _dtm.timedelta(minutes=mins)
            dt = NS(tzinfo=_dtm.timezone.utc, utcoffset=lambda off=off: off)
            for token, sep in (("Z", ":"), ("ZZ", "")):
                want = f"{'+' if mins >= 0 else '-'}{abs(mins) // 60:02d}{sep}{abs(mins) % 60:02d}"
                got = minieval.call(ft, [selfo, dt, token, None], {}, {"$globals": {"datetime": _dtm, "cast": lambda t, v: v}})
                n += 1
                if got != want:
                    bad.append(f"{token} at {mins:+d} min -> {got!r} (expected {want!r})")
        for token in ("Z", "ZZ"):
            got = minieval.call(ft, [selfo, NS(tzinfo=None, utcoffset=lambda: None), token, None], {}, {"$globals": {"datetime": _dtm}})
            n += 1
            if got != "":
                bad.append(f"{token} on a naive value -> {got!r} (expected '')")
    except (core.Unsupported, ValueError, TypeError, AttributeError, KeyError, IndexError) as e:
        ctx.unverified("OFFSET.render", "Formatter._format_token/tabulated", f"outside the checker's interpreter: {e}", m.loc(ft))
        return None
    ctx.ob("OFFSET.render", "Formatter._format_token/tabulated", not bad,
           f"{n} (token, offset) pairs evaluated: " + (f"wrong: {bad[:4]}" if bad else "all render sign, hh, separator (':' for Z only), mm"), m.loc(ft))
    return not bad


def _offsets(ctx, m) -> None:
    ft = m.func("Formatter._format_token")
    tab = _offset_render_tabulate(ctx, m)
    arm = [b for t, b in _chain(ft) if t is not None and un(t) in ("token in ['ZZ', 'Z']", "token in ['Z', 'ZZ']")]
    if tab:
        pass                     # the rendered strings are right on the whole table: the shape of the arm is not a property
    elif not arm:
        ctx.unverified("OFFSET.render", "Formatter._format_token", "Z/ZZ arm not found", m.rel)
    else:
        src = [nun(s) for s in arm[0]]
        checks = {
            "separator": "separator = ':' if token == 'Z' else ''" in src,
            "minutes": "minutes = offset.total_seconds() / 60" in src,
            "sign": "sign = '+' if minutes >= 0 else '-'" in src,
            "divmod": "hour, minute = divmod(abs(int(minutes)), 60)" in src,
            "result": "return f'{sign}{hour:02d}{separator}{minute:02d}'" in src,
            "offset": "offset = dt.utcoffset() or datetime.timedelta()" in src,
        }
        for k, ok in checks.items():
            ctx.ob("OFFSET.render", f"Z-ZZ/{k}", ok, f"Z/ZZ arm statements {src}", m.rel)
    im = pmod("parsing.iso8601")
    t_fmt = C07.py_offset_tabulate(ctx, "OFFSET.parse", "Formatter._get_parsed_value", m, m.func("Formatter._get_parsed_value"))
    t_iso = C07.py_offset_tabulate(ctx, "OFFSET.parse", "iso8601.parse_iso8601", im, im.func("parse_iso8601"))
    if t_fmt and t_iso:
        ctx.ob("SIBLING.offset", "iso8601-vs-formatter", True, "both offset-string parsers give the same (correct) table", m.rel)
        return
    b = C07._offset_block(m, m.func("Formatter._get_parsed_value"), "value")
    if b is None:
        if t_fmt is None:
            ctx.unverified("OFFSET.parse", "Formatter._get_parsed_value", "offset block not found", m.rel)
        return
    joined = "\n".join(b)
    ctx.ob("OFFSET.parse", "from_format/formula", "offset = (int(off_hour) * 60 + int(off_minute)) * 60" in b, f"{b}", m.rel)
    ctx.ob("OFFSET.parse", "from_format/sign", "negative = bool(S.startswith('-'))" in b and "if negative:\n    offset = -1 * offset" in joined,
           "negated iff the string starts with '-'", m.rel)
    b1 = C07._offset_block(im, im.func("parse_iso8601"), "tz")
    if b1 is None:
        ctx.unverified("SIBLING.offset", "iso8601-vs-formatter", "the offset block of parse_iso8601 has another shape; decided by tabulation only", m.rel)
    else:
        ctx.ob("SIBLING.offset", "iso8601-vs-formatter", b1 == b or bool(t_fmt and t_iso), "the two offset-string parsers must stay identical", m.rel)


def _named_formats(ctx) -> None:
    dm, cm = pmod("datetime"), pmod("constants")
    fm = dm.assign("_FORMATS", "DateTime")
    if not isinstance(fm, ast.Dict):
        ctx.unverified("NAMED", "DateTime._FORMATS", "not a dict literal", dm.rel)
        return
    for k, v in zip(fm.keys, fm.values):
        name = k.value
        if isinstance(v, ast.Lambda):
            ok = name in ("iso8601", "rfc3339") and nun(v.body) in ("dt.isoformat('T')", "dt.isoformat()")
            ctx.ob("NAMED.table", f"_FORMATS/{name}", ok, f"`{un(v)}`; must be the ISO rendering dt.isoformat('T')", dm.loc(v))
        else:
            ctx.ob("NAMED.table", f"_FORMATS/{name}", un(v) == name.upper(), f"_FORMATS[{name!r}] = {un(v)}; must be {name.upper()}", dm.loc(v))
        meth = f"DateTime.to_{name}_string"
        if dm.has_func(meth):
            calls = [c for c in core.calls(dm.func(meth)) if nun(c.func) == "self._to_string"]
            ok = len(calls) == 1 and core.is_const(calls[0].args[0], name)
            ctx.ob("NAMED.method", meth, ok, f"must call self._to_string({name!r})", dm.loc(dm.func(meth)))
        else:
            ctx.ob("NAMED.method", meth, False, "method missing", dm.rel)
    want = {
        "ATOM": "YYYY-MM-DDTHH:mm:ssZ", "COOKIE": "dddd, DD-MMM-YYYY HH:mm:ss zz", "ISO8601": "YYYY-MM-DDTHH:mm:ssZ",
        "ISO8601_EXTENDED": "YYYY-MM-DDTHH:mm:ss.SSSSSSZ", "RFC822": "ddd, DD MMM YY HH:mm:ss ZZ",
        "RFC850": "dddd, DD-MMM-YY HH:mm:ss zz", "RFC1036": "ddd, DD MMM YY HH:mm:ss ZZ",
        "RFC1123": "ddd, DD MMM YYYY HH:mm:ss ZZ", "RFC2822": "ddd, DD MMM YYYY HH:mm:ss ZZ",
        "RSS": "ddd, DD MMM YYYY HH:mm:ss ZZ",
    }
    for k, v in want.items():
        got = core.const("constants", k)
        ctx.ob("NAMED.const", f"constants.{k}", got == v, f"{k} = {got!r}; the documented composition is {v!r}", cm.rel)
    for a, b in (("RFC3339", "ISO8601"), ("RFC3339_EXTENDED", "ISO8601_EXTENDED"), ("W3C", "ISO8601")):
        ctx.ob("NAMED.const", f"constants.{a}", core.const("constants", a) == core.const("constants", b), f"{a} must alias {b}", cm.rel)
    from .. import sem
    iso = dm.func("DateTime.to_iso8601_string")
    try:
        lv = sem.leaves_of(dm, "DateTime.to_iso8601_string")
        rew = [(c, it) for c, it in lv if any("replace('+00:00', 'Z')" in str(x) for x in it)]
        plain = [(c, it) for c, it in lv if any(x[0] == "exit" and x[1] == "return" for x in it) and not any("replace('+00:00', 'Z')" in str(x) for x in it)]
        utc = lambda c: c.get("self.tz") is True and any(("UTC" in k and "self.tz.name" in k and "==" in k) and v for k, v in c.items())  # noqa: E731
        ok = bool(rew) and all(utc(c) for c, _ in rew) and bool(plain) and not any(utc(c) for c, _ in plain)
        ctx.ob("NAMED.iso8601", "DateTime.to_iso8601_string", ok,
               f"'+00:00' is rewritten to 'Z' under {[sorted(k for k, v in c.items() if 'tz' in k) for c, _ in rew][:2]}; it must apply exactly when "
               f"the zone is set and named UTC", dm.loc(iso))
    except (sem.Giveup, core.Unsupported, KeyError, AttributeError) as e:
        ctx.unverified("NAMED.iso8601", "DateTime.to_iso8601_string", str(e), dm.loc(iso))
    ts = dm.func("DateTime._to_string")
    try:
        lv = sem.leaves_of(dm, "DateTime._to_string")
        look = ("self._FORMATS[fmt]", "self._FORMATS.get(fmt)")
        raises = [c for c, it in lv if any(x[0] == "exit" and x[1] == "raise" and "ValueError" in str(x[2]) for x in it)]
        calls_ = [c for c, it in lv if any(x[0] == "exit" and x[1] == "return" and str(x[2]) in tuple(f"{l}(self)" for l in look) for x in it)]
        fmts = [c for c, it in lv if any(x[0] == "exit" and x[1] == "return" and any(str(x[2]) == f"self.format({l}, locale=locale)" or
                                                                                    str(x[2]) == f"self.format(fmt={l}, locale=locale)" for l in look) for x in it)]
        ok = bool(raises) and bool(calls_) and bool(fmts) \
            and all(any("callable(" in k and v for k, v in c.items()) for c in calls_) \
            and all(any("callable(" in k and not v for k, v in c.items()) for c in fmts) \
            and all(any((" in self._FORMATS" in k and not v) or ("self._FORMATS.get(fmt) is None" in k and v) for k, v in c.items()) for c in raises)
        ctx.ob("NAMED.dispatch", "DateTime._to_string", ok,
               f"{len(raises)} unsupported-format exits, {len(calls_)} callable exits, {len(fmts)} format() exits; _to_string must look the format up, "
               f"refuse an unknown name and delegate to format() / the callable", dm.loc(ts))
    except (sem.Giveup, core.Unsupported, KeyError, AttributeError) as e:
        ctx.unverified("NAMED.dispatch", "DateTime._to_string", str(e), dm.loc(ts))
    simple = {"to_time_string": "self.format('HH:mm:ss')", "to_datetime_string": "self.format('YYYY-MM-DD HH:mm:ss')",
              "to_day_datetime_string": "self.format('ddd, MMM D, YYYY h:mm A', locale='en')"}
    for q, want_s in simple.items():
        r = core.returns(dm.func(f"DateTime.{q}"))
        ctx.ob("NAMED.method", f"DateTime.{q}", len(r) == 1 and nun(r[0].value) == want_s, f"returns {[nun(x.value) for x in r]}", dm.rel)


def _zone_and_extraction(ctx, m, T) -> None:
    # (a) the z token must admit IANA names with up to three '/'-separated parts, '_' '-' '+' and digits in the later parts
    pat = T["_REGEX_TOKENS"].get("z")
    if not isinstance(pat, str):
        ctx.unverified("ZONE.regex", "token/z", f"entry {pat!r}", m.rel)
    else:
        tree = rx.parse(pat)
        reps = []
        for op, av in tree:
            if op in (rx.C.MAX_REPEAT, rx.C.MIN_REPEAT):
                lo, hi, sub = av
                inner = list(sub)
                if len(inner) == 1 and inner[0][0] is rx.C.SUBPATTERN:
                    inner = list(inner[0][1][3])
                if inner and inner[0] == (rx.C.LITERAL, ord("/")):
                    reps.append((lo, hi, inner))
        ok = bool(reps) and all(lo == 0 and (hi is rx.MAXREPEAT or hi >= 2) for lo, hi, _ in reps)
        chars_ok = False
        for _lo, _hi, inner in reps:
            for op, av in inner[1:]:
                if op in (rx.C.MAX_REPEAT,) and av[2][0][0] is rx.C.IN:
                    cls = av[2][0][1]
                    have = {chr(a) for o, a in cls if o is rx.C.LITERAL}
                    chars_ok = {"_", "-", "+"} <= have
        ctx.ob("ZONE.regex", "token/z", ok and chars_ok,
               f"`{pat}` allows {[(lo, 'inf' if hi is rx.MAXREPEAT else hi) for lo, hi, _ in reps]} further '/'-separated parts; zone names such as "
               f"America/Argentina/Buenos_Aires have three parts (and need _ - + in them), so format('z') could not be parsed back", m.rel)
    # (b) the values must be extracted from the match of the *anchored* pattern
    fn = m.func("Formatter.parse")
    uses = []
    for c in core.calls(fn):
        f = nun(c.func)
        if f.startswith("re.") and c.args and "pattern" in un(c.args[0]):
            a0 = nun(c.args[0])

            def parts(n):
                if isinstance(n, ast.BinOp) and isinstance(n.op, ast.Add):
                    return parts(n.left) + parts(n.right)
                if isinstance(n, ast.JoinedStr):
                    return [x.value if isinstance(x, ast.Constant) else None for x in n.values]
                return [n.value if isinstance(n, ast.Constant) and isinstance(n.value, str) else None]
            ps = parts(c.args[0])
            head = isinstance(ps[0], str) and (ps[0].startswith("^") or ps[0].startswith("\\A"))
            tail = isinstance(ps[-1], str) and (ps[-1].endswith("$") or ps[-1].endswith("\\Z"))
            anchored = f == "re.fullmatch" or (tail and (head or f == "re.match"))      # '^' + p + '$', f'^{p}$', re.match(p + '$')
            uses.append((f, a0, anchored))
    ctx.ob("EXTRACT.anchored", "Formatter.parse/regex-uses", bool(uses) and all(u[2] for u in uses),
           f"regex applications of the format pattern: {uses}; extracting values with the un-anchored pattern stops at the first "
           f"alternative that matches (a localized name that is a prefix of another one is read as the shorter name)", m.loc(fn))


def _from_format(ctx) -> None:
    im = pmod("__init__")
    fn = im.func("from_format")
    calls = [c for c in core.calls(fn) if nun(c.func) == "_formatter.parse"]
    ok = len(calls) == 1 and [nun(a) for a in calls[0].args] == ["string", "fmt", "now(tz=tz)"] and \
        {k: nun(v) for k, v in core.kw(calls[0]).items()} == {"locale": "locale"}
    ctx.ob("FROMFORMAT.forward", "from_format/_formatter.parse", ok,
           f"`{nun(calls[0]) if calls else None}`; must pass string, fmt, now(tz=tz) and locale=locale", im.loc(fn))
    fm = pmod("mixins.default")
    r = core.returns(fm.func("FormattableMixin.format"))
    ctx.ob("FROMFORMAT.forward", "FormattableMixin.format", len(r) == 1 and nun(r[0].value) == "self._formatter.format(self, fmt, locale)",
           f"returns {[nun(x.value) for x in r]}", fm.rel)


def _weekday_anchor(ctx) -> None:
    """WEEKDAY.tabulated: a weekday token next to a date does not move the date out of its week - the block of
    Formatter._check_parsed that handles parsed['day_of_week'] is run by the checker's interpreter in the calendar world of
    rules/calstub.py (DateTime.next interpreted from datetime.py) for every date of a fortnight x every weekday: the date
    left in `validated` must be the day with that weekday in the Monday-based week of the date given."""
    import datetime as _dt
    from ..rules import calstub, minieval
    m = pmod("formatting.formatter")
    fn = m.func("Formatter._check_parsed")
    blocks = [n for n in core.walk_fn(fn) if isinstance(n, ast.If) and "day_of_week" in un(n.test) and any(isinstance(c.func, ast.Attribute) and c.func.attr in ("next", "previous")
              for st in n.body for c in ast.walk(st) if isinstance(c, ast.Call))]
    if len(blocks) != 1:
        ctx.unverified("WEEKDAY.tabulated", "Formatter._check_parsed", f"{len(blocks)} blocks handling parsed['day_of_week'] through next()/previous() found", m.loc(fn))
        return
    dm = pmod("datetime")
    bad, n = [], 0
    try:
        for off in range(14):
            d = _dt.date(2021, 2, 22) + _dt.timedelta(days=off)
            for wd in range(7):
                w = calstub.World(dm, "DateTime", extra=pmod("date").methods("Date"))
                env = {"parsed": {"day_of_week": wd}, "validated": {"year": d.year, "month": d.month, "day": d.day}, "now": w.datetime(_dt.date(1999, 9, 9), 0, 1), "self": None}
                g = dict(w.glob)
                minieval.run([blocks[0]], env, g)
                v = env["validated"]
                want = d - _dt.timedelta(days=d.weekday()) + _dt.timedelta(days=wd)
                n += 1
                if (v["year"], v["month"], v["day"]) != (want.year, want.month, want.day):
                    bad.append(f"{d} ({d.strftime('%a')}) with weekday {wd}: {v['year']}-{v['month']:02d}-{v['day']:02d} (expected {want})")
    except calstub.ERRORS + (ValueError,) as e:
        ctx.unverified("WEEKDAY.tabulated", "Formatter._check_parsed", f"outside the checker's interpreter: {type(e).__name__}: {e}", m.loc(blocks[0]))
        return
    ctx.ob("WEEKDAY.tabulated", "Formatter._check_parsed", not bad,
           f"{n} (date, weekday) cases: " + (f"wrong: {bad[:3]}" if bad else "always the day with that weekday in the week of the date"), m.loc(blocks[0]))


# ---- value rules: Formatter.format / Formatter.parse evaluated by the checker's interpreter in the formatter world ----
_ORD = {1: "st", 2: "nd", 3: "rd"}


def _ordinal(n: int) -> str:
    return f"{n}{'th' if 10 <= n % 100 <= 20 else _ORD.get(n % 10, 'th')}"


_EN_L = {"LT": "h:mm A", "LTS": "h:mm:ss A", "L": "MM/DD/YYYY", "LL": "MMMM D, YYYY", "LLL": "MMMM D, YYYY h:mm A", "LLLL": "dddd, MMMM D, YYYY h:mm A"}
_MONTHS = ["January", "February", "March", "April", "May", "June", "July", "August", "September", "October", "November", "December"]
_DAYS = ["Monday", "Tuesday", "Wednesday", "Thursday", "Friday", "Saturday", "Sunday"]


def _offset_text(off, colon: bool) -> str:
    import datetime as _dt
    mins = abs(off) // _dt.timedelta(minutes=1)
    return f"{'-' if off < _dt.timedelta(0) else '+'}{mins // 60:02d}{':' if colon else ''}{mins % 60:02d}"


def expected_token(tok: str, w, off) -> str | None:
    """what the documentation (docs/docs/string_formatting.md, English locale) says `tok` renders for the wall time `w` at UTC offset `off`,
    computed with the standard library only; None = not tabulated"""
    import datetime as _dt
    h12 = w.hour % 12 or 12
    ts = (w - off - _dt.datetime(1970, 1, 1)) // _dt.timedelta(seconds=1)
    yday = w.timetuple().tm_yday
    q = (w.month - 1) // 3 + 1
    simple = {
        "YYYY": f"{w.year:d}", "YY": f"{w.year % 100:02d}", "Y": f"{w.year:d}", "Q": f"{q}", "Qo": _ordinal(q),
        "MMMM": _MONTHS[w.month - 1], "MMM": _MONTHS[w.month - 1][:3], "MM": f"{w.month:02d}", "M": f"{w.month}", "Mo": _ordinal(w.month),
        "DDDD": f"{yday:03d}", "DDD": f"{yday}", "DD": f"{w.day:02d}", "D": f"{w.day}", "Do": _ordinal(w.day),
        "dddd": _DAYS[w.weekday()], "ddd": _DAYS[w.weekday()][:3], "dd": _DAYS[w.weekday()][:2], "d": f"{w.isoweekday() % 7}", "E": f"{w.isoweekday()}",
        "HH": f"{w.hour:02d}", "H": f"{w.hour}", "hh": f"{h12:02d}", "h": f"{h12}", "mm": f"{w.minute:02d}", "m": f"{w.minute}",
        "ss": f"{w.second:02d}", "s": f"{w.second}", "A": "AM" if w.hour < 12 else "PM",
        "Z": _offset_text(off, True), "ZZ": _offset_text(off, False), "z": _offset_text(off, True), "zz": _offset_text(off, True),
        "X": f"{ts}", "x": f"{ts * 1000 + w.microsecond // 1000}",
    }
    if tok in simple:
        return simple[tok]
    if tok and set(tok) == {"S"} and len(tok) <= 6:
        return f"{w.microsecond:06d}"[:len(tok)]
    if tok in _EN_L:
        return expected_format(_EN_L[tok], w, off)
    return None


def expected_format(fmt: str, w, off) -> str:
    """`fmt` rendered by the documentation's rules: [text] verbatim, the longest documented token at each position, other characters as they are"""
    toks = sorted(set(SLOT) | {"Qo", "Mo", "zz"} | set(_EN_L), key=len, reverse=True)
    out, i = [], 0
    while i < len(fmt):
        if fmt[i] == "[" and "]" in fmt[i:]:
            j = fmt.index("]", i)
            out.append(fmt[i + 1:j])
            i = j + 1
            continue
        for t in toks:
            if fmt.startswith(t, i) and expected_token(t, w, off) is not None:
                out.append(expected_token(t, w, off))
                i += len(t)
                break
        else:
            out.append(fmt[i])
            i += 1
    return "".join(out)


def _grid(thorough: bool):
    import datetime as _dt
    ws = [_dt.datetime(2021, 3, 7, 14, 5, 9, 123456), _dt.datetime(2000, 2, 29, 0, 0, 0, 0), _dt.datetime(1999, 12, 31, 23, 59, 59, 999999),
          _dt.datetime(1000, 1, 1, 12, 0, 0, 1), _dt.datetime(9999, 12, 31, 11, 59, 0, 990000), _dt.datetime(1969, 7, 20, 20, 17, 40, 7),
          _dt.datetime(2024, 12, 30, 1, 1, 1, 100), _dt.datetime(2023, 1, 1, 12, 30, 30, 500000), _dt.datetime(2011, 11, 11, 11, 11, 11, 111111),
          _dt.datetime(2022, 10, 22, 22, 2, 20, 20), _dt.datetime(2020, 6, 13, 9, 9, 9, 90909), _dt.datetime(1970, 1, 1, 0, 0, 0, 0),
          _dt.datetime(2038, 1, 19, 3, 14, 8, 1000), _dt.datetime(2019, 8, 21, 13, 0, 0, 999), _dt.datetime(2024, 12, 31, 0, 30, 0, 10), _dt.datetime(1969, 12, 31, 23, 59, 58, 500000)]
    ws += [_dt.datetime(2021, 8, 2 + i, (5 * i) % 24, 7 * i, 8 * i, 1001 * i) for i in range(7)]
    if thorough:
        ws += [_dt.datetime(1000 + 37 * i, 1 + i % 12, 1 + (5 * i) % 28, i % 24, (7 * i) % 60, (11 * i) % 60, (100003 * i) % 1000000) for i in range(1, 240)]
    offs = [_dt.timedelta(0), _dt.timedelta(hours=5, minutes=30), _dt.timedelta(hours=-3, minutes=-30), _dt.timedelta(hours=14), _dt.timedelta(hours=-11)]
    return ws, offs


SEQUENCES = ["dddd Do [of] MMMM YYYY HH:mm:ss A", "[on] YYYY-MM-DD [at] HH:mm:ss.SSSSSS [UTC]Z", "YYYY-MM-DDTHH:mm:ss.SSSZZ", "ddd, D MMM YY h:m:s A [Q]Q", "[[escaped]] E/d DDDD",
             "YYYY[Y]MM[M]DD[D] x X", "hh [o'clock] a", "Do MMM, Qo [quarter] - dd", "LLLL [/] LTS"]
FULL = ["YYYY-MM-DD HH:mm:ss.SSSSSS ZZ", "YYYY-MM-DDTHH:mm:ss.SSSSSSZ", "DD/MM/YYYY hh:mm:ss A SSSSSS Z", "dddd, MMMM Do YYYY, h:mm:ss.SSSSSS A ZZ", "YYYY DDDD HH mm ss SSSSSS Z",
        "[on] YYYY-MM-DD [at] HH:mm:ss.SSSSSS [offset]Z", "D MMM YYYY H:m:s.SSSSSS ZZ", "YYYY-MM-DD ddd HH:mm:ss.SSSSSS Z", "YYYY-MM-DD dd HH:mm:ss.SSSSSS Z",
        # every token from_format can read appears in one of these (the single-letter forms, the shorter fractions, the day of the year, the quarter)
        "Y-M-D H:m:s.S Z", "YY-MM-DD HH:mm:ss.SS ZZ", "YYYY DDD HH:mm:ss.SSS ZZ", "YYYY-MM-DD HH:mm:ss.SSSS Z", "YYYY-MM-DD [Q]Q HH:mm:ss.SSSSSS Z"]
WEEKDAY_TOKENS = ["d", "E"]
ZONE_NAMES = ["Europe/Paris", "America/Argentina/Buenos_Aires", "UTC", "Etc/GMT+5", "America/Port-au-Prince"]
NOMATCH = [("2021-03-07", "YYYY-MM-DD HH:mm"), ("2021/03/07", "YYYY-MM-DD"), ("2021-03", "YYYY-MM-DD"), ("2021-03-07 1x", "YYYY-MM-DD HH"), ("12.30", "HH:mm"), ("Marchh 2021", "MMMM YYYY"),
           ("2021-03-07x", "YYYY-MM-DD"), ("x2021-03-07", "YYYY-MM-DD"), ("2021-1x-01", "YYYY-MM-DD"), ("", "YYYY"), ("2021-03-07 +5:30", "YYYY-MM-DD Z"), ("7th", "D"), ("Sunday", "MMMM")]


def _locales() -> list[str]:
    d = core.REPO / "src/pendulum/locales"
    return sorted(p.name for p in d.iterdir() if p.is_dir() and (p / "locale.py").exists())


def _tz_of(v):
    return vars(v).get("_zone") if v is not None and hasattr(v, "__dict__") else v


def _formatter_tabulate(ctx, thorough: bool) -> None:
    """RENDER.tabulated / ROUNDTRIP.tabulated / NOWFILL.tabulated / NOMATCH.tabulated: Formatter.format and Formatter.parse (with the
    token tables, the Locale class and the locale literals they read) are evaluated by the checker's interpreter in the formatter world
    (rules/fmtstub.py: DateTime values of the wall-clock world at a fixed offset, `re` from the standard library); the strings are compared
    with the documentation's rules computed from the standard library, the parts returned by parse() with the fields formatted."""
    import datetime as _dt
    from ..rules import fmtstub, minieval
    m = pmod(FMT)
    loc_format, loc_parse = m.loc(m.func("Formatter.format")), m.loc(m.func("Formatter.parse"))
    ws, offs = _grid(thorough)
    now = _dt.datetime(1987, 6, 5, 4, 3, 2, 1)
    docs = documented_tokens()
    worlds = {}

    def world(off):
        if off not in worlds:
            worlds[off] = fmtstub.World(off)
        return worlds[off]

    pairs = [(w, off) for off in offs for w in ws] if thorough else [(w, offs[i % len(offs)]) for i, w in enumerate(ws)]

    def outcome(f, *a, **k):
        try:
            return ("ok", f(*a, **k))
        except minieval.Raised as e:
            return ("raise", e.exc_name)
        except (ValueError, OverflowError) as e:                 # an error of the standard library on plain values
            return ("raise", type(e).__name__)

    try:
        # 1. every documented token and the sequences
        bad: dict[str, list[str]] = {}
        cross = [(w, off) for off in offs for w in ws]
        count = {}
        for fmt in docs + SEQUENCES:
            for w, off in (cross if fmt in ("Z", "ZZ", "X", "x") else pairs):           # the offset matters to these: every offset with every value
                want = expected_format(fmt, w, off) if fmt in SEQUENCES else expected_token(fmt, w, off)
                if want is None:
                    continue
                got = outcome(world(off).format, w, fmt)
                count[fmt] = count.get(fmt, 0) + 1
                if got != ("ok", want):
                    bad.setdefault(fmt, []).append(f"{w.isoformat()}{_offset_text(off, True)}: {got[1]!r} (documented: {want!r})")
        for fmt in docs + SEQUENCES:
            if expected_token(fmt, ws[0], offs[0]) is None and fmt not in SEQUENCES:
                continue
            ctx.ob("RENDER.tabulated", f"format token `{fmt}`" if fmt in docs else f"format `{fmt}`", fmt not in bad,
                   f"{count.get(fmt, 0)} (DateTime, offset) values: " + (f"wrong: {bad[fmt][:3]}" if fmt in bad else "the documented rendering computed from the standard library"), loc_format)
        if not bad:
            ctx.established(("RENDER.rule", "TABLES.handler"), "token/", "RENDER.tabulated")
            ctx.established(("MERIDIEM",), "format/A", "RENDER.tabulated")
            ctx.established(("OFFSET.render",), "Formatter._format_token", "RENDER.tabulated")
        # zone names through z
        for name in ZONE_NAMES:
            wd = world(offs[0])
            v = wd.value(ws[0])
            vars(v).update(timezone_name=name)
            got = outcome(minieval.call, wd.fmeths["format"], [wd.formatter, v, "z", "en"], {}, wd.glob)
            back = outcome(wd.parse, name + " 2021", "z YYYY", now) if got == ("ok", name) else None
            ok = got == ("ok", name) and back is not None and back[0] == "ok" and _tz_of(back[1].get("tz")) == name and back[1].get("year") == 2021
            ctx.ob("ROUNDTRIP.tabulated", f"zone name `{name}` through z", ok, f"format -> {got[1]!r}; parse -> {back and (back[1] if back[0] == 'raise' else _tz_of(back[1].get('tz')))!r}", loc_parse)
        # 2. round trip of full formats
        fields = ("year", "month", "day", "hour", "minute", "second", "microsecond")
        for fmt in FULL + [f"YYYY-MM-DD {t} HH:mm:ss.SSSSSS ZZ" for t in WEEKDAY_TOKENS]:
            wrong = []
            width = max((len(x) for x in re.findall(r"S+", re.sub(r"\[[^\]]*\]", "", fmt))), default=0)
            for w, off in pairs:
                if fmt.startswith("YY-") and not 1969 <= w.year <= 2068:      # two-digit years: the POSIX window
                    continue
                wd = world(off)
                s = outcome(wd.format, w, fmt)
                r = outcome(wd.parse, s[1], fmt, now) if s[0] == "ok" else s
                usec = w.microsecond // 10 ** (6 - width) * 10 ** (6 - width)
                if r[0] != "ok" or tuple(r[1].get(k) for k in fields) != (w.year, w.month, w.day, w.hour, w.minute, w.second, usec) \
                        or _tz_of(r[1].get("tz")) != off // _dt.timedelta(seconds=1):
                    got = r[1] if r[0] == "raise" else {k: r[1].get(k) for k in fields} | {"tz": _tz_of(r[1].get("tz"))}
                    wrong.append(f"{s[1]!r} -> {got}")
            tok = fmt.split()[1] if fmt.startswith("YYYY-MM-DD ") and fmt.split()[1] in WEEKDAY_TOKENS else None
            ctx.ob("ROUNDTRIP.tabulated", f"weekday token `{tok}` beside a full date" if tok else f"format `{fmt}`", not wrong,
                   f"{len(pairs)} (DateTime, offset) values formatted then parsed: " + (f"{len(wrong)} do not come back, e.g. {wrong[:2]}" if wrong else "fields and offset come back"), loc_parse)
        # timestamps
        wrong = []
        for fmt in ("X", "x"):
            for w, off in pairs:
                if w.year > 9000:
                    continue
                wd = world(off)
                s = outcome(wd.format, w, fmt)
                r = outcome(wd.parse, s[1], fmt, now) if s[0] == "ok" else s
                u = (w - off).replace(microsecond=0 if fmt == "X" else w.microsecond // 1000 * 1000)
                if r[0] != "ok" or tuple(r[1].get(k) for k in fields) != (u.year, u.month, u.day, u.hour, u.minute, u.second, u.microsecond):
                    wrong.append(f"{fmt}: {s[1]!r} -> {r[1] if r[0] == 'raise' else tuple(r[1].get(k) for k in fields)}")
        ctx.ob("ROUNDTRIP.tabulated", "timestamp tokens X / x", not wrong, "the UTC fields of the instant come back" if not wrong else f"{len(wrong)} wrong, e.g. {wrong[:2]}", loc_parse)
        # 3. localized names in every shipped locale
        locs = _locales()
        wd = world(offs[0])
        for loc in locs:
            wrong = []
            if thorough:
                cases = [(_dt.datetime(2021, mo, 15), fmt) for mo in range(1, 13) for fmt in ("YYYY MMMM D", "D MMM YYYY")] + \
                        [(_dt.datetime(2021, 3, 1 + dd), fmt) for dd in range(7) for fmt in ("dddd YYYY-MM-DD", "YYYY-MM-DD ddd", "YYYY-MM-DD [/] dd")]
            else:       # every month name and every day name in each width, two names per string
                cases = [(_dt.datetime(2021, mo, 1) + _dt.timedelta(days=(mo - 1 - _dt.date(2021, mo, 1).weekday()) % 7), fmt) for mo in range(1, 13)
                         for fmt in ("dddd D MMMM YYYY", "dd ddd D MMM YYYY")]
            for w, fmt in cases:
                s = outcome(wd.format, w, fmt, loc)
                r = outcome(wd.parse, s[1], fmt, now, loc) if s[0] == "ok" else s
                if r[0] != "ok" or (r[1].get("year"), r[1].get("month"), r[1].get("day")) != (w.year, w.month, w.day):
                    wrong.append(f"{fmt}: {s[1]!r} -> {r[1] if r[0] == 'raise' else (r[1].get('year'), r[1].get('month'), r[1].get('day'))}")
            ctx.ob("ROUNDTRIP.tabulated", f"locale {loc}: month and day names", not wrong,
                   f"12 month names x 2 widths, 7 day names x 3 widths in {len(cases)} strings formatted then parsed: " + (f"{len(wrong)} do not come back, e.g. {wrong[:3]}" if wrong else "all come back"), f"src/pendulum/locales/{loc}/locale.py")
        from .. import report
        known = {(k["rule"], k["construct"]) for k in report.load_known() if k["property"] == "C08" and k.get("status") == "known"}
        if not any(o.rule == "ROUNDTRIP.tabulated" and o.verdict == report.FAIL and (o.rule, o.construct) not in known for o in ctx.obs):
            # every token that from_format reads came back with its value (in every locale): which arm of which method stores it is then not a property
            ctx.established(("TABLES.parse-arm", "TABLES.parse-entry", "TABLES.slots"), "token/", "ROUNDTRIP.tabulated")
            ctx.established(("TABLES.slots",), "Formatter.parse", "ROUNDTRIP.tabulated")
            ctx.established(("MERIDIEM",), "parse/meridiem", "ROUNDTRIP.tabulated")      # (12-hour formats with A come back for hours 0, 11, 12, 13, 23 among the values)
        # 4. absent date fields come from `now`; no match -> ValueError
        wrong = []
        for fmt in ("HH:mm:ss", "h:mm A", "H", "HH:mm:ss.SSS"):
            for w in ws[:8]:
                s = outcome(wd.format, w, fmt)
                r = outcome(wd.parse, s[1], fmt, now) if s[0] == "ok" else s
                if r[0] != "ok" or (r[1].get("year"), r[1].get("month"), r[1].get("day")) != (now.year, now.month, now.day) or r[1].get("hour") != w.hour:
                    wrong.append(f"{fmt}: {s[1]!r} -> {r[1]}")
        ctx.ob("NOWFILL.tabulated", "Formatter.parse: time-only formats", not wrong, "year, month and day are those of the `now` supplied" if not wrong else f"wrong: {wrong[:3]}", loc_parse)
        wrong = []
        for text, fmt in NOMATCH:
            r = outcome(wd.parse, text, fmt, now)
            if r != ("raise", "ValueError"):
                wrong.append(f"parse({text!r}, {fmt!r}) -> {r[1] if r[0] == 'raise' else 'accepted'}")
        ctx.ob("NOMATCH.tabulated", "Formatter.parse: strings that do not match", not wrong, f"{len(NOMATCH)} strings: " + ("all raise ValueError" if not wrong else f"wrong: {wrong[:3]}"), loc_parse)
    except fmtstub.ERRORS as e:
        ctx.unverified("RENDER.tabulated", "Formatter.format / Formatter.parse", f"outside the checker's interpreter: {type(e).__name__}: {str(e)[:200]}", loc_format)



def run(ctx) -> None:
    ctx.explanation = EXPLANATION
    m = pmod(FMT)
    T = _tables(m)
    docs = documented_tokens()
    from . import C15, C18
    ctx.step(C18._ordinalize_tabulate, ctx)   # Do / Mo / Qo / DDDo / wo render through Locale.ordinalize: every locale x every number a field can take
    ctx.step(C15._getters_tabulate, ctx)      # the tokens render the calendar getters of the value (day_of_year, week_of_year, quarter, day_of_week, ...): against the standard library
    ctx.step(_formatter_tabulate, ctx, ctx.tier == "thorough")       # the value rules first: what they establish is no longer a question of form
    lang = ctx.guard("TABLES.language", "Formatter._TOKENS", token_language, m.rel)
    if lang is not None:
        _writer(ctx, m, T, docs, lang)
    ctx.step(_reader, ctx, m, T, docs)
    ctx.step(_width_scale, ctx, m, T)
    ctx.step(_offsets, ctx, m)
    ctx.step(_zone_and_extraction, ctx, m, T)
    ctx.step(_named_formats, ctx)
    ctx.step(_weekday_anchor, ctx)
    ctx.step(_from_format, ctx)
    ctx.step(_defaulting, ctx, m)
    ctx.step(_timestamp_fraction, ctx, m)
    ctx.expect_min("SCALE.timestamp", 1)
    ctx.expect_min("DEFAULTS.fill", 6)
    ctx.expect_min("TABLES.language", 40)
    ctx.expect_min("TABLES.handler", 40)
    ctx.expect_min("TABLES.parse-arm", 30)
    ctx.expect_min("RENDER.rule", 25)
    ctx.expect_min("NAMED", 30)
    ctx.assumptions += ["docs/docs/string_formatting.md's token tables define 'documented token'",
                        "the per-token meaning table (RENDER/SLOT in pvs/props/C08.py) transcribes that documentation"]
