"""Duration must survive copy.deepcopy(), copy.copy() and pickle with all its components."""
import copy
import pickle
import sys

import pendulum

failures = []


def components(d):
    return (
        d.years,
        d.months,
        d.weeks,
        d.remaining_days,
        d.hours,
        d.minutes,
        d.remaining_seconds,
        d.microseconds,
    )


def check(label, got, expected):
    if got != expected:
        failures.append(f"{label}: got {got!r}, expected {expected!r}")


cases = [
    # (constructor kwargs, hand-computed components, total seconds without Y/M)
    (dict(weeks=2), (0, 0, 2, 0, 0, 0, 0, 0)),
    (dict(years=1, months=2), (1, 2, 0, 0, 0, 0, 0, 0)),
    (
        dict(years=1, months=2, weeks=3, days=4, hours=5, minutes=6, seconds=7,
             microseconds=8),
        (1, 2, 3, 4, 5, 6, 7, 8),
    ),
    (dict(days=17, seconds=3661), (0, 0, 2, 3, 1, 1, 1, 0)),
    (
        dict(years=-1, months=-2, weeks=-3, days=-4, hours=-5),
        (-1, -2, -3, -4, -5, 0, 0, 0),
    ),
]

for kwargs, expected in cases:
    d = pendulum.duration(**kwargs)
    check(f"sanity {kwargs}", components(d), expected)
    clones = {
        "deepcopy": copy.deepcopy(d),
        "copy": copy.copy(d),
    }
    for proto in range(pickle.HIGHEST_PROTOCOL + 1):
        clones[f"pickle{proto}"] = pickle.loads(pickle.dumps(d, proto))
    for how, clone in clones.items():
        check(f"{how} {kwargs} type", type(clone), type(d))
        check(f"{how} {kwargs} components", components(clone), expected)
        check(f"{how} {kwargs} days", clone.days, d.days)
        check(f"{how} {kwargs} total_seconds", clone.total_seconds(), d.total_seconds())

# the examples of the report, against hand-computed values
check("deepcopy weeks", copy.deepcopy(pendulum.duration(weeks=2)).total_seconds(),
      14 * 86400.0)
p = pickle.loads(pickle.dumps(pendulum.duration(years=1, months=2)))
check("pickle y/m", (p.years, p.months, p.weeks, p.remaining_days, p.days),
      (1, 2, 0, 0, 365 + 60))

# a duration used after the round trip still behaves as calendar arithmetic
dt = pendulum.datetime(2020, 1, 31)
check("add after pickle", (dt + p).to_date_string(), "2021-03-31")

if failures:
    print("\n".join(failures))
    sys.exit(1)
print("ok")
