"""C20 — Time-of-day arithmetic wraps modulo 24 hours exactly (structural clauses)."""
from __future__ import annotations

import ast

from .. import cfg, core
from ..core import nun, pmod, un
from ..rules import recon
from ..rules.canon import Canon

EXPLANATION = (
    "Decided statically: (1) COMPONENT-COMPLETE + UNITS in Time.diff: each operand's scalar uses hour, minute, "
    "second and microsecond with the weights 3600e6, 60e6, 1e6, 1, the result is other - self, abs selects "
    "AbsoluteDuration; (2) add()/subtract() are mirror images on the UTC epoch carrier "
    "(DateTime.EPOCH.at(h, m, s, us).<add|subtract>(all four units).time()), add_timedelta/subtract_timedelta "
    "reject a day component with TypeError and forward seconds and microseconds; the carrier is a UTC value "
    "(no DST on it); (3) operand direction of __sub__/__rsub__ and the guards of the operators; (4) closest()/"
    "farthest() order by a full-resolution quantity (a truncating projection such as in_seconds() in an ordering "
    "decision is reported) and pair < with closest, > with farthest; (5) the reconstructions of operands copy "
    "all four fields. NOT decided: DateTime.add's arithmetic itself (C03)."
    ' Also: closest()/farthest() compare magnitudes (accessor results), never the Duration objects, whose native ordering is signed.'
)

W = {"hour": 3600 * 10**6, "minute": 60 * 10**6, "second": 10**6, "microsecond": 1}
LOSSY = {"in_seconds", "in_minutes", "in_hours", "in_days", "in_weeks", "in_words"}


def _diff(ctx) -> None:
    m = pmod("time")
    fn = m.func("Time.diff")
    consts = {k: core.fold_name(k, m) for k in ("SECS_PER_HOUR", "SECS_PER_MIN", "USECS_PER_SEC")}
    can = Canon(consts=consts)
    ps = cfg.paths(fn)
    done = set()
    for p in ps:
        ex = p.exit()
        if ex[1] != "return":
            continue
        val = core.strip_casts(ex[2].value)
        if not isinstance(val, ast.Call):
            ctx.unverified("UNITS.components", "Time.diff", f"returns `{un(val)[:50]}`", m.loc(ex[2]))
            continue
        klass = nun(cfg.subst_path(p, val.func, set()))
        absf = p.holds("abs")
        ctx.ob("DIFF.class", f"Time.diff/abs={absf}", klass == ("AbsoluteDuration" if absf else "Duration"),
               f"abs={absf} builds a {klass}", m.loc(ex[2]))
        k = core.kw(val)
        if set(k) != {"microseconds"} or val.args:
            ctx.ob("UNITS.components", "Time.diff/argument", False, f"result built with {sorted(k)}; the scalar is in microseconds", m.loc(ex[2]))
            continue
        e = cfg.subst_path(p, k["microseconds"], set())
        given = p.holds("dt is None") is False
        key = (given,)
        if key in done or not given:
            continue
        done.add(key)
        if not (isinstance(e, ast.BinOp) and isinstance(e.op, ast.Sub)):
            ctx.unverified("UNITS.components", "Time.diff", f"`{nun(e)[:60]}` is not a difference", m.loc(ex[2]))
            continue
        from ..rules import units
        for side, node, who in (("minuend", e.left, "self.__class__(dt.hour, dt.minute, dt.second, dt.microsecond)"), ("subtrahend", e.right, "self")):
            try:
                w = units.weights(node, m)
            except core.Unsupported as ex2:
                ctx.unverified("UNITS.components", f"Time.diff/{side}", str(ex2), m.loc(ex[2]))
                continue
            w = {a: int(c) for a, c in w.items()}
            bases = {a.rsplit(".", 1)[0] for a in w}
            got = {a.rsplit(".", 1)[1]: c for a, c in w.items()}
            ok = got == W and bases == {who}
            missing = sorted(set(W) - set(got))
            ctx.ob("UNITS.components", f"Time.diff/{side}", ok,
                   f"{side} = {got} over {sorted(bases)}; a time of day in microseconds is hour*3600e6 + minute*60e6 + second*1e6 + "
                   f"microsecond of {who}" + (f" (missing: {missing})" if missing else ""), m.loc(ex[2]))
    _ = can


def _carrier(ctx) -> None:
    m = pmod("time")
    for name in ("add", "subtract"):
        fn = m.func(f"Time.{name}")
        r = core.returns(fn)
        want = ("DateTime.EPOCH.at(self.hour, self.minute, self.second, self.microsecond)."
                f"{name}(hours=hours, minutes=minutes, seconds=seconds, microseconds=microseconds).time()")
        ctx.ob("CARRIER.shape", f"Time.{name}", len(r) == 1 and nun(r[0].value) == want,
               f"returns `{[nun(x.value) for x in r]}`; must be the UTC epoch set to this time of day, shifted with {name}() by all "
               f"four units, and projected back with .time()", m.loc(fn))
        ctx.ob("CARRIER.signature", f"Time.{name}", core.params(fn) == ["hours", "minutes", "seconds", "microseconds"], f"{core.params(fn)}", m.loc(fn))
    dm = pmod("datetime")
    ep = [st for st in dm.tree.body if isinstance(st, ast.Assign) and nun(st.targets[0]) == "DateTime.EPOCH"]
    ctx.ob("CARRIER.utc", "DateTime.EPOCH", len(ep) == 1 and nun(ep[0].value) == "DateTime(1970, 1, 1, tzinfo=UTC)",
           f"EPOCH = {nun(ep[0].value) if ep else None}; the carrier must be a UTC value (no DST transition can disturb the shift)", dm.rel)
    for name, meth in (("add_timedelta", "add"), ("subtract_timedelta", "subtract")):
        fn = m.func(f"Time.{name}")
        src = [nun(s) for s in core.body_no_doc(fn)]
        dp = core.params(fn)[0]
        ok = len(src) == 2 and src[0].startswith(f"if {dp}.days:\n    raise TypeError(") and \
            src[1] == f"return self.{meth}(seconds={dp}.seconds, microseconds={dp}.microseconds)"
        ctx.ob("TIMEDELTA.arm", f"Time.{name}", ok,
               f"{src}; a timedelta with days is rejected with TypeError, seconds and microseconds are forwarded to {meth}()", m.loc(fn))


def _operators(ctx) -> None:
    m = pmod("time")
    fn = m.func("Time.__add__")
    src = [nun(s) for s in core.body_no_doc(fn)]
    ctx.ob("DUNDER.add", "Time.__add__", src == ["if not isinstance(other, timedelta):\n    return NotImplemented", "return self.add_timedelta(other)"], f"{src}", m.loc(fn))
    sub = m.func("Time.__sub__")
    for p in cfg.paths(sub):
        ex = p.exit()
        if ex[1] != "return":
            continue
        v = nun(ex[2].value)
        if p.holds("isinstance(other, (Time, time, timedelta))") is False:
            ctx.ob("DUNDER.guard", "Time.__sub__/other-type", v == "NotImplemented", f"returns {v}", m.loc(ex[2]))
        elif p.holds("isinstance(other, timedelta)") is True:
            ctx.ob("DUNDER.route", "Time.__sub__/timedelta", v == "self.subtract_timedelta(other)", f"returns {v}", m.loc(ex[2]))
        else:
            recv = nun(cfg.subst_path(p, ast.parse(v, mode="eval").body.func.value, set())) if v.endswith("diff(self, False)") else "?"
            ok = v == "other.diff(self, False)" and recv in ("other", "self.__class__(other.hour, other.minute, other.second, other.microsecond)")
            ctx.ob("DIRECTION", "Time.__sub__/time", ok, f"returns `{v}` on `{recv}`; self - other must be <other>.diff(self, False)", m.loc(ex[2]))
    rsub = m.func("Time.__rsub__")
    for p in cfg.paths(rsub):
        ex = p.exit()
        if ex[1] != "return":
            continue
        v = nun(ex[2].value)
        if p.holds("isinstance(other, (Time, time))") is False:
            ctx.ob("DUNDER.guard", "Time.__rsub__/other-type", v == "NotImplemented", f"returns {v}", m.loc(ex[2]))
        else:
            ctx.ob("DIRECTION", "Time.__rsub__/time", v in ("other.__sub__(self)", "self.diff(other, False)"),
                   f"returns `{v}`; other - self must be <other>.__sub__(self)", m.loc(ex[2]))
    for q in ("Time.__sub__", "Time.__rsub__"):
        f2 = m.func(q)
        rz = [n for n in core.walk_fn(f2) if isinstance(n, ast.If) and nun(n.test) == "other.tzinfo is not None"]
        ctx.ob("DUNDER.aware", q, len(rz) == 1 and "TypeError" in nun(rz[0].body[0]), "aware operands are rejected with TypeError", m.loc(f2), nontrivial=False)


def _closest(ctx) -> None:
    m = pmod("time")
    for name, op in (("closest", ast.Lt), ("farthest", ast.Gt)):
        fn = m.func(f"Time.{name}")
        ifs = [n for n in core.walk_fn(fn) if isinstance(n, ast.If) and isinstance(n.test, ast.Compare)]
        if len(ifs) != 1:
            ctx.unverified("ORDER.resolution", f"Time.{name}", "comparison not found", m.loc(fn))
            continue
        t = ifs[0].test
        lossy = sorted({c.func.attr for c in core.calls(t) if isinstance(c.func, ast.Attribute) and c.func.attr in LOSSY})
        ctx.ob("ORDER.resolution", f"Time.{name}", not lossy,
               f"`{nun(t)}` orders the candidates by {lossy or 'a full-resolution quantity'}" +
               ("; a truncated distance cannot tell apart candidates within the same unit" if lossy else ""), m.loc(t))
        # AbsoluteDuration only *presents* magnitudes (total_seconds() = abs(total)); its native timedelta slots keep the
        # sign, and the rich comparison of two Durations is timedelta's: the operands must be magnitude accessors
        for side in (t.left, t.comparators[0]):
            side = core.strip_casts(side)
            is_acc = isinstance(side, ast.Call) and isinstance(side.func, ast.Attribute) and \
                (side.func.attr.startswith("total_") or side.func.attr.startswith("in_")) and "self.diff(" in nun(side.func.value)
            is_abs = isinstance(side, ast.Call) and nun(side.func) == "abs"
            bare = isinstance(side, ast.Call) and isinstance(side.func, ast.Attribute) and side.func.attr == "diff"
            if bare:
                ctx.ob("ORDER.magnitude", f"Time.{name}/{nun(side)}", False,
                       f"`{nun(t)}` compares the Duration objects themselves: timedelta ordering uses the signed native value, so an "
                       f"earlier candidate always counts as nearer than a later one", m.loc(t))
            elif is_acc or is_abs:
                ctx.ob("ORDER.magnitude", f"Time.{name}/{nun(side)[:40]}", True, "distance compared as a non-negative number", m.loc(t))
            else:
                # a private helper: its canonical leaves must all be magnitudes (abs(...), an absolute accessor)
                from .. import sem
                done = False
                if isinstance(side, ast.Call) and isinstance(side.func, ast.Attribute) and nun(side.func.value) == "self" and m.has_func(f"Time.{side.func.attr}"):
                    try:
                        lv = sem.leaves_of(m, f"Time.{side.func.attr}")
                        vals = [str(x[2]) for c, it in lv for x in it if x[0] == "exit" and x[1] == "return"]
                        if vals and all(v.startswith("abs(") for v in vals):
                            ctx.ob("ORDER.magnitude", f"Time.{name}/{nun(side)[:40]}", True, f"helper returns {vals[0][:60]}: a non-negative distance", m.loc(t))
                            done = True
                    except (sem.Giveup, core.Unsupported, KeyError, AttributeError):
                        pass
                if not done:
                    ctx.unverified("ORDER.magnitude", f"Time.{name}", f"operand `{nun(side)}`", m.loc(t))
        l, r = nun(t.left), nun(t.comparators[0])
        # the same distance function applied to both candidates (whatever it is called: self.diff(..).total_seconds(), a helper)
        sym = l.replace("dt1", "X") == r.replace("dt2", "X") and "dt1" in l and "dt2" in r and "self" in l
        ok = isinstance(t.ops[0], op) and sym and nun(ifs[0].body[0]) == "return dt1" and nun(core.body_no_doc(fn)[-1]) == "return dt2"
        ctx.ob("ORDER.pairing", f"Time.{name}", ok,
               f"`if {nun(t)}: {nun(ifs[0].body[0])}` else dt2; {name} must return dt1 exactly when its distance is "
               f"{'smaller' if name == 'closest' else 'larger'}", m.loc(t))
    sites = recon.sites_in(m, ["Time.closest", "Time.farthest", "Time.diff", "Time.__sub__", "Time.__rsub__", "Time.add", "Time.subtract"])
    for s in sites:
        recon.check_site(ctx, s)
    ctx.count("recon_sites", len(sites))


def _time_tabulate(ctx) -> None:
    """TIME.tabulated: every arithmetic method of Time run by the checker's interpreter on Time stubs (rules/wallstub.py
    TimeWorld: DateTime.EPOCH is a value of the wall-clock world, Duration / AbsoluteDuration record their arguments) and on
    native datetime.time / timedelta operands: add / subtract / + / - timedelta shift modulo 24 h exactly to the microsecond
    and return a Time, subtract undoes add, a timedelta with a day component is refused with TypeError, diff / t2 - t1 /
    native - Time give the signed difference of the times of day in microseconds (AbsoluteDuration for abs=True), aware
    operands are refused, closest / farthest choose by the absolute difference."""
    import datetime as _dt
    from ..rules import minieval, wallstub
    m = pmod("time")
    DAY = 86400 * 10**6

    def us(t):
        return ((t.hour * 60 + t.minute) * 60 + t.second) * 10**6 + t.microsecond

    def tod(n):
        n %= DAY
        return _dt.time(n // 3600_000_000, n // 60_000_000 % 60, n // 10**6 % 60, n % 10**6)
    try:
        w = wallstub.TimeWorld(m)
    except wallstub.ERRORS as e:
        ctx.unverified("TIME.tabulated", "Time", f"outside the checker's interpreter: {type(e).__name__}: {e}", m.rel)
        return
    times = [_dt.time(0, 0, 0), _dt.time(23, 59, 59, 999999), _dt.time(12, 34, 56, 789012), _dt.time(0, 0, 0, 1), _dt.time(1, 0, 0), _dt.time(13, 0, 0, 500000)]
    amounts = [{}, {"hours": 1}, {"hours": -1}, {"hours": 25}, {"hours": -49}, {"minutes": 1}, {"minutes": 61}, {"minutes": -1441}, {"seconds": 1}, {"seconds": -1}, {"seconds": 3661},
               {"seconds": 86399}, {"microseconds": 1}, {"microseconds": -1}, {"microseconds": 10**6 + 1}, {"microseconds": -(DAY + 1)},
               {"hours": 1, "minutes": 2, "seconds": 3, "microseconds": 4}, {"hours": -1, "minutes": -2, "seconds": -3, "microseconds": -4}, {"minutes": 7, "seconds": 75}]
    deltas = [_dt.timedelta(0), _dt.timedelta(hours=1), _dt.timedelta(seconds=86399, microseconds=999999), _dt.timedelta(microseconds=1), _dt.timedelta(minutes=90, microseconds=5)]

    def amount_us(kw):
        return ((kw.get("hours", 0) * 60 + kw.get("minutes", 0)) * 60 + kw.get("seconds", 0)) * 10**6 + kw.get("microseconds", 0)
    groups: dict[str, list[str]] = {}
    counts: dict[str, int] = {}

    def check(group, label, fn, want):
        """want: ('time', datetime.time) | ('dur', kind, us) | ('raise', name) | ('is', object)"""
        counts[group] = counts.get(group, 0) + 1
        bad = groups.setdefault(group, [])
        try:
            got = fn()
        except minieval.Raised as e:
            if want[0] != "raise" or e.exc_name != want[1]:
                bad.append(f"{label}: raises {e.exc_name}")
            return
        if want[0] == "raise":
            bad.append(f"{label}: returns {got!r}; must raise {want[1]}")
        elif want[0] == "time":
            g = vars(got).get("_tod") if isinstance(got, minieval.Obj) else None
            if isinstance(got, _dt.time):
                bad.append(f"{label}: returns the standard-library {got!r}, not a Time")
            elif g != want[1]:
                bad.append(f"{label}: {g if g is not None else got!r} (expected {want[1]})")
        elif want[0] == "dur":
            if not isinstance(got, minieval.Stub) or (getattr(got, "_kind", None), getattr(got, "_us", None)) != (want[1], want[2]):
                bad.append(f"{label}: {getattr(got, '_kind', got)!r} of {getattr(got, '_us', '?')} us (expected {want[1]} of {want[2]} us)")
        elif want[0] == "is":
            if got is not want[1]:
                bad.append(f"{label}: returns {got!r}")
    try:
        for t in times:
            x = lambda: w.time(t.hour, t.minute, t.second, t.microsecond)      # noqa: E731
            for kw in amounts:
                a = amount_us(kw)
                check("add", f"Time({t}).add({kw})", lambda: w.call(x(), "add", [], dict(kw)), ("time", tod(us(t) + a)))
                check("subtract", f"Time({t}).subtract({kw})", lambda: w.call(x(), "subtract", [], dict(kw)), ("time", tod(us(t) - a)))
                check("subtract", f"Time({t}).add({kw}).subtract({kw})", lambda: w.call(w.call(x(), "add", [], dict(kw)), "subtract", [], dict(kw)), ("time", t))
            for d in deltas:
                du = d // _dt.timedelta(microseconds=1)
                check("__add__", f"Time({t}) + {d!r}", lambda: w.call(x(), "__add__", [d]), ("time", tod(us(t) + du)))
                check("__sub__", f"Time({t}) - {d!r}", lambda: w.call(x(), "__sub__", [d]), ("time", tod(us(t) - du)))
            # a pendulum Duration is a timedelta too: its native days / seconds / microseconds are the length, its hours / minutes / remaining_seconds
            # the breakdown of the same length - counting both doubles the amount
            for d in (_dt.timedelta(minutes=1), _dt.timedelta(hours=2, minutes=3, seconds=4, microseconds=5), _dt.timedelta(seconds=59, microseconds=999999)):
                du = d // _dt.timedelta(microseconds=1)
                pd = minieval.Stub(_kind="Duration", _types=(_dt.timedelta,), _native=d, _us=du, days=d.days, seconds=d.seconds, microseconds=d.microseconds, hours=d.seconds // 3600,
                                   minutes=d.seconds % 3600 // 60, remaining_seconds=d.seconds % 60, remaining_days=0, weeks=0, years=0, months=0, total_seconds=d.total_seconds,
                                   in_seconds=lambda d_=d: int(d_.total_seconds()),
                                   # added to / taken from a standard-library value it acts as the timedelta it is
                                   _add=lambda o, d_=d: o + d_, _rsub=lambda o, d_=d: o - d_)
                check("__add__", f"Time({t}) + Duration({d})", lambda: w.call(x(), "__add__", [pd]), ("time", tod(us(t) + du)))
                check("__sub__", f"Time({t}) - Duration({d})", lambda: w.call(x(), "__sub__", [pd]), ("time", tod(us(t) - du)))
            for d in (_dt.timedelta(days=1), _dt.timedelta(days=-1, hours=1), _dt.timedelta(days=2, microseconds=1)):
                check("__add__", f"Time({t}) + {d!r}", lambda: w.call(x(), "__add__", [d]), ("raise", "TypeError"))
                check("__sub__", f"Time({t}) - {d!r}", lambda: w.call(x(), "__sub__", [d]), ("raise", "TypeError"))
            check("__add__", f"Time({t}) + 5", lambda: w.call(x(), "__add__", [5]), ("is", NotImplemented))
            check("__sub__", f"Time({t}) - 5", lambda: w.call(x(), "__sub__", [5]), ("is", NotImplemented))
            if "__rsub__" in w.meths:
                check("__rsub__", f"5 - Time({t})", lambda: w.call(x(), "__rsub__", [5]), ("is", NotImplemented))
                check("__rsub__", f"timedelta - Time({t})", lambda: w.call(x(), "__rsub__", [_dt.timedelta(hours=1)]), ("is", NotImplemented))
            for o in times:
                for ov, kind in ((w.time(o.hour, o.minute, o.second, o.microsecond), "Time"), (o, "time")):
                    check("diff", f"Time({t}).diff({kind}({o}), abs=False)", lambda: w.call(x(), "diff", [ov, False]), ("dur", "Duration", us(o) - us(t)))
                    check("diff", f"Time({t}).diff({kind}({o}))", lambda: w.call(x(), "diff", [ov]), ("dur", "AbsoluteDuration", us(o) - us(t)))
                    check("__sub__", f"Time({t}) - {kind}({o})", lambda: w.call(x(), "__sub__", [ov]), ("dur", "Duration", us(t) - us(o)))
                    if "__rsub__" in w.meths:
                        check("__rsub__", f"{kind}({o}) - Time({t})", lambda: w.call(x(), "__rsub__", [ov]), ("dur", "Duration", us(o) - us(t)))
            aware = _dt.time(1, 2, 3, tzinfo=_dt.timezone.utc)
            check("__sub__", f"Time({t}) - aware time", lambda: w.call(x(), "__sub__", [aware]), ("raise", "TypeError"))
            if "__rsub__" in w.meths:
                check("__rsub__", f"aware time - Time({t})", lambda: w.call(x(), "__rsub__", [aware]), ("raise", "TypeError"))
            for o1 in times:
                for o2 in times:
                    d1, d2 = abs(us(o1) - us(t)), abs(us(o2) - us(t))
                    if d1 == d2:
                        continue
                    a1, a2 = (w.time(o1.hour, o1.minute, o1.second, o1.microsecond), o2)
                    check("closest", f"Time({t}).closest({o1}, {o2})", lambda: w.call(x(), "closest", [a1, a2]), ("time", o1 if d1 < d2 else o2))
                    check("farthest", f"Time({t}).farthest({o1}, {o2})", lambda: w.call(x(), "farthest", [a1, a2]), ("time", o1 if d1 > d2 else o2))
    except wallstub.ERRORS + (ValueError,) as e:
        ctx.unverified("TIME.tabulated", "Time", f"outside the checker's interpreter: {type(e).__name__}: {e}", m.rel)
        return
    ok_all = True
    for g, bad in groups.items():
        if g not in w.meths:
            continue
        ctx.ob("TIME.tabulated", f"Time.{g}", not bad, f"{counts[g]} cases: " + (f"wrong: {bad[:3]}" if bad else "exact to the microsecond on every case"), m.loc(w.meths[g]))
        ok_all = ok_all and not bad
    if ok_all:
        ctx.established(("UNITS.components", "DIFF", "CARRIER", "TIMEDELTA", "DIRECTION", "ORDER", "DUNDER.aware", "DUNDER.guard"), "Time.", "TIME.tabulated")


def run(ctx) -> None:
    ctx.explanation = EXPLANATION
    ctx.step(_time_tabulate, ctx)
    ctx.step(_diff, ctx)
    ctx.step(_carrier, ctx)
    ctx.step(_operators, ctx)
    ctx.step(_closest, ctx)
    from ..rules import addduration as AD
    ctx.step(AD.carry_blocks, ctx)       # Time.add/subtract run on DateTime.add -> add_duration's carry chain
    from . import C09
    ctx.step(C09._abs_new, ctx)          # diff(abs=True) hands its microseconds to AbsoluteDuration: the breakdown it stores
    ctx.step(C09._duration_new, ctx)
    ctx.step(C09._digits, ctx)           # ... whose hours / minutes / remaining_seconds are then read off lazily     # ... and diff()/t2 - t1 to Duration
    ctx.expect_min("UNITS.components", 2)
    ctx.expect_min("CARRIER", 5)
    ctx.expect_min("ORDER", 4)
    ctx.expect_min("RECON.slot", 30)
