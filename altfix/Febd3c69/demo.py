"""The years/months/weeks/days/h/m/s/us breakdown of a Duration must add up to the exact
length of the underlying timedelta, also beyond 2**53 microseconds (~285 years)."""
import random
import sys
from datetime import timedelta

import pendulum
from pendulum import Duration

bad = []


def native_us(d):
    return (
        timedelta.days.__get__(d) * 86400 + timedelta.seconds.__get__(d)
    ) * 10**6 + timedelta.microseconds.__get__(d)


def breakdown_us(d):
    days = d.years * 365 + d.months * 30 + d.weeks * 7 + d.remaining_days
    secs = days * 86400 + d.hours * 3600 + d.minutes * 60 + d.remaining_seconds
    return secs * 10**6 + d.microseconds


# hand-computed examples from the report
d = Duration(years=300, seconds=7, microseconds=630000)
if (d.years, d.weeks, d.remaining_days, d.seconds, d.microseconds) != (300, 0, 0, 7, 630000):
    bad.append(f"Duration(years=300, seconds=7, microseconds=630000) -> {d!r}")
p = pendulum.parse("P300YT7.63S")
if (p.years, p.remaining_seconds, p.microseconds) != (300, 7, 630000):
    bad.append(f"parse('P300YT7.63S') -> {p!r}")
n = Duration(years=-300, seconds=-7, microseconds=-630000)
if (n.years, n.seconds, n.microseconds) != (-300, -7, -630000):
    bad.append(f"negative example -> {n!r}")

rng = random.Random(42)
for i in range(5000):
    years = rng.choice([0, rng.randint(-2000, 2000)])
    months = rng.choice([0, rng.randint(-11, 11)])
    kw = dict(
        days=rng.randint(-400000, 400000),
        seconds=rng.randint(-86399, 86399),
        microseconds=rng.randint(-999999, 999999),
    )
    d = Duration(years=years, months=months, **kw)
    want = timedelta(days=years * 365 + months * 30) + timedelta(**kw)
    if native_us(d) != native_us(want):
        bad.append(f"underlying timedelta wrong for {years},{months},{kw}")
        continue
    if breakdown_us(d) != native_us(want):
        bad.append(
            f"Duration(years={years}, months={months}, {kw}): breakdown "
            f"{breakdown_us(d)} us, timedelta {native_us(want)} us"
        )
        continue
    # the part besides years and months: sign-magnitude, all parts of one sign
    rest = native_us(timedelta(**kw))
    sign = -1 if rest < 0 else 1
    q, us = divmod(abs(rest), 10**6)
    dd, ss = divmod(q, 86400)
    if (d.weeks * 7 + d.remaining_days, d.seconds, d.microseconds) != (sign * dd, sign * ss, sign * us):
        bad.append(f"parts of {kw}: {d!r}")

if bad:
    print(f"{len(bad)} mismatches, e.g.:")
    for b in bad[:8]:
        print("  ", b)
    sys.exit(1)
print("ok: Duration breakdown exact to the microsecond")
