"""Structural dominance facts: the branch atoms that are known to hold whenever
control reaches a given AST node (enclosing if/elif/else, conditional
expressions, short-circuit operands, and preceding sibling `if` statements
that always leave the block)."""
from __future__ import annotations

import ast

from .. import cfg


def _common(conjs: list[list[tuple[str, bool]]]) -> set[tuple[str, bool]]:
    if not conjs:
        return set()
    s = set(conjs[0])
    for c in conjs[1:]:
        s &= set(c)
    return s


def always_exits(body: list[ast.stmt]) -> bool:
    if not body:
        return False
    last = body[-1]
    if isinstance(last, (ast.Return, ast.Raise, ast.Continue, ast.Break)):
        return True
    if isinstance(last, ast.If):
        return always_exits(last.body) and always_exits(last.orelse)
    return False


def facts_at(node: ast.AST) -> set[tuple[str, bool]]:
    facts: set[tuple[str, bool]] = set()
    child = node
    p = getattr(node, "_parent", None)
    while p is not None and not isinstance(p, (ast.FunctionDef, ast.AsyncFunctionDef, ast.Lambda, ast.ClassDef)):
        if isinstance(p, ast.If):
            if any(child is s for s in p.body):
                facts |= _common(cfg.decide(p.test, True))
            elif any(child is s for s in p.orelse):
                facts |= _common(cfg.decide(p.test, False))
        elif isinstance(p, ast.IfExp):
            if child is p.body:
                facts |= _common(cfg.decide(p.test, True))
            elif child is p.orelse:
                facts |= _common(cfg.decide(p.test, False))
        elif isinstance(p, ast.While):
            if any(child is s for s in p.body):
                facts |= _common(cfg.decide(p.test, True))
        elif isinstance(p, ast.BoolOp):
            for i, v in enumerate(p.values):
                if v is child:
                    for prev in p.values[:i]:
                        facts |= _common(cfg.decide(prev, isinstance(p.op, ast.And)))
        # preceding siblings that always leave the block
        for fld in ("body", "orelse", "finalbody"):
            lst = getattr(p, fld, None)
            if isinstance(lst, list) and any(child is s for s in lst):
                idx = [i for i, s in enumerate(lst) if s is child][0]
                for prev in lst[:idx]:
                    if isinstance(prev, ast.If):
                        if always_exits(prev.body) and not prev.orelse:
                            facts |= _common(cfg.decide(prev.test, False))
                        elif prev.orelse and always_exits(prev.orelse) and not always_exits(prev.body):
                            facts |= _common(cfg.decide(prev.test, True))
        child = p
        p = getattr(p, "_parent", None)
    if p is not None and isinstance(p, (ast.FunctionDef, ast.AsyncFunctionDef)):
        lst = p.body
        if any(child is s for s in lst):
            idx = [i for i, s in enumerate(lst) if s is child][0]
            for prev in lst[:idx]:
                if isinstance(prev, ast.If):
                    if always_exits(prev.body) and not prev.orelse:
                        facts |= _common(cfg.decide(prev.test, False))
                    elif prev.orelse and always_exits(prev.orelse) and not always_exits(prev.body):
                        facts |= _common(cfg.decide(prev.test, True))
    return facts


def enclosing_handlers(node: ast.AST) -> list[str]:
    """exception class names caught around `node` inside its function (try/except and contextlib.suppress)."""
    out: list[str] = []
    child = node
    p = getattr(node, "_parent", None)
    while p is not None and not isinstance(p, (ast.FunctionDef, ast.AsyncFunctionDef, ast.ClassDef)):
        if isinstance(p, ast.Try) and any(child is s for s in p.body):
            for h in p.handlers:
                if h.type is None:
                    out.append("BaseException")
                elif isinstance(h.type, ast.Tuple):
                    out += [ast.unparse(e) for e in h.type.elts]
                else:
                    out.append(ast.unparse(h.type))
        if isinstance(p, ast.With) and any(child is s for s in p.body):
            for it in p.items:
                c = it.context_expr
                if isinstance(c, ast.Call) and ast.unparse(c.func) in ("contextlib.suppress", "suppress"):
                    out += [ast.unparse(a) for a in c.args]
        child = p
        p = getattr(p, "_parent", None)
    return out
