"""Template matching for small method bodies.

A body equal to the template (after the caller's delta rewrites) passes.  When
it differs, the *feature multiset* (constants, comparison operators, called
attribute names, subscript constants, keyword names) decides: different
features -> violation naming the difference; equal features (a restructuring
that keeps every token of meaning) -> UNVERIFIED, never a violation."""
from __future__ import annotations

import ast
from collections import Counter

from .. import core
from ..core import nun


def features(stmts: list[ast.stmt] | list[str]) -> Counter:
    c: Counter = Counter()
    nodes = []
    for s in stmts:
        nodes.append(ast.parse(s) if isinstance(s, str) else s)
    for root in nodes:
        for n in ast.walk(root):
            if isinstance(n, ast.Constant) and not (isinstance(n.value, str) and len(n.value) > 25):
                c[("const", repr(n.value))] += 1
            elif isinstance(n, ast.Compare):
                c[("cmp", ast.unparse(n))] += 1
            elif isinstance(n, ast.Subscript):
                c[("sub", ast.unparse(n))] += 1
            elif isinstance(n, ast.BoolOp):
                c[("bool", type(n.op).__name__)] += 1
            elif isinstance(n, ast.BinOp):
                c[("bin", type(n.op).__name__)] += 1
            elif isinstance(n, ast.UnaryOp):
                c[("un", type(n.op).__name__)] += 1
            elif isinstance(n, ast.Attribute):
                c[("attr", ast.unparse(n) if core.dotted(n) else "?." + n.attr)] += 1
            elif isinstance(n, ast.keyword) and n.arg:
                c[("kw", n.arg)] += 1
            elif isinstance(n, ast.IfExp):
                c[("ifexp", ast.unparse(n.test), ast.unparse(n.body), ast.unparse(n.orelse))] += 1
            elif isinstance(n, (ast.Return, ast.Raise, ast.Break, ast.Continue, ast.While, ast.For, ast.If)):
                c[("stmt", type(n).__name__)] += 1
            elif isinstance(n, ast.Name) and n.id in ("None", "True", "False", "NotImplemented"):
                c[("name", n.id)] += 1
    return c


def alpha(stmts: list[str]) -> list[str]:
    """rename local variables (assignment targets, loop variables) to v0, v1, ... in order of first binding"""
    trees = [ast.parse(x) for x in stmts]
    order: list[str] = []
    for t in trees:
        for n in ast.walk(t):
            if isinstance(n, ast.Name) and isinstance(n.ctx, ast.Store) and n.id not in order:
                order.append(n.id)
    ren = {n: f"v{i}" for i, n in enumerate(order)}

    class R(ast.NodeTransformer):
        def visit_Name(self, node: ast.Name):
            if node.id in ren:
                return ast.copy_location(ast.Name(ren[node.id], node.ctx), node)
            return node
    return [ast.unparse(R().visit(t)) for t in trees]


def match(ctx, rule: str, construct: str, m: core.Mod, fn: ast.FunctionDef, template: list[str], rewrite=None, why: str = "") -> bool:
    got = [nun(s) for s in core.body_no_doc(fn)]
    if rewrite:
        got = [rewrite(s) for s in got]
    tmpl = [nun(ast.parse(t)) for t in template]
    try:
        got, tmpl = alpha(got), alpha(tmpl)
    except SyntaxError:
        ctx.unverified(rule, construct, "body could not be re-parsed after rewriting", m.loc(fn))
        return False
    if got == tmpl:
        return ctx.ob(rule, construct, True, "matches the reference shape", m.loc(fn))
    try:
        fg, ft = features(got), features(tmpl)
    except SyntaxError:
        ctx.unverified(rule, construct, "body could not be re-parsed after rewriting", m.loc(fn))
        return False
    if fg == ft:
        ctx.unverified(rule, construct, "body restructured (same constants/operators/calls as the reference shape)", m.loc(fn))
        return False
    extra = fg - ft
    missing = ft - fg
    import re as _re
    moved = [str(e) for e in extra.elements() if _re.search(r"'(?:self|cls|self\.__class__)\._[a-z]\w*'|\('(?:attr|call|name)', '_[a-z]\w*'", str(e))]
    if moved:
        # the body hands part of its work to a private helper the reference shape does not have: a shape comparison of this body alone says
        # nothing about the values computed
        ctx.unverified(rule, construct, f"part of the body lives in a private helper ({moved[0]}); the reference shape does not apply", m.loc(fn))
        return False
    ctx.ob(rule, construct, False,
           f"differs from the reference shape: unexpected {sorted(map(str, extra.elements()))[:6]}, missing "
           f"{sorted(map(str, missing.elements()))[:6]}. {why}", m.loc(fn))
    return False
