"""E3: statement-level path enumeration for small functions.

`paths(fn)` enumerates every syntactic path from entry to an exit (return,
raise, fall-through).  A path is a list of events:

    ("assume", test_expr, polarity)   branch decision (test normalised, see norm_test)
    ("stmt", node)                    simple statement executed
    ("loop", node)                    a loop taken as an opaque block (its body is not unrolled)
    ("exit", kind, node)              kind in {"return", "raise", "fall"}

Paths are syntactic; infeasible combinations are pruned only when the same
normalised test appears twice with opposite polarity on one path and none of
the names it reads was assigned in between.
"""
from __future__ import annotations

import ast
from typing import Iterator

from .core import Unsupported, un, strip_casts

MAX_PATHS = 20000


def norm_test(test: ast.expr, pol: bool = True) -> tuple[str, bool]:
    """`not X` -> (X, !pol); `a is not b` -> (`a is b`, !pol); `a != b` -> (`a == b`, !pol)."""
    test = strip_casts(test)  # type: ignore[assignment]
    if isinstance(test, ast.UnaryOp) and isinstance(test.op, ast.Not):
        return norm_test(test.operand, not pol)
    if isinstance(test, ast.Compare) and len(test.ops) == 1:
        op = test.ops[0]
        flip = {ast.IsNot: ast.Is, ast.NotEq: ast.Eq, ast.NotIn: ast.In}
        if type(op) in flip:
            t2 = ast.Compare(left=test.left, ops=[flip[type(op)]()], comparators=test.comparators)
            return un(t2), not pol
    return un(test), pol


def decide(test: ast.expr, outcome: bool) -> list[list[tuple[str, bool]]]:
    """The short-circuit evaluations of `test` that produce `outcome`, each a
    list of (normalised atom, polarity)."""
    test = strip_casts(test)  # type: ignore[assignment]
    if isinstance(test, ast.UnaryOp) and isinstance(test.op, ast.Not):
        return decide(test.operand, not outcome)
    if isinstance(test, ast.BoolOp):
        is_or = isinstance(test.op, ast.Or)
        first, rest = test.values[0], test.values[1:]
        rest_e: ast.expr = rest[0] if len(rest) == 1 else ast.BoolOp(op=test.op, values=rest)
        if is_or == outcome:
            # `a or b` true: a true | a false & b true ;  `a and b` false: a false | a true & b false
            out = decide(first, outcome)
            for x in decide(first, not outcome):
                for y in decide(rest_e, outcome):
                    out.append(x + y)
            return out
        out = []
        for x in decide(first, outcome):
            for y in decide(rest_e, outcome):
                out.append(x + y)
        return out
    t, pol = norm_test(test)
    return [[(t, pol if outcome else not pol)]]


def _names_read(expr_src: str) -> set[str]:
    try:
        return {n.id for n in ast.walk(ast.parse(expr_src, mode="eval")) if isinstance(n, ast.Name)}
    except SyntaxError:
        return set()


def _assigned(node: ast.AST) -> set[str]:
    out = set()
    for n in ast.walk(node):
        if isinstance(n, ast.Name) and isinstance(n.ctx, ast.Store):
            out.add(n.id)
    return out


class Path(list):
    def exit(self):
        return self[-1]

    def assumes(self) -> list[tuple[str, bool]]:
        return [(e[1], e[2]) for e in self if e[0] == "assume"]

    def stmts(self) -> list[ast.stmt]:
        return [e[1] for e in self if e[0] in ("stmt", "loop")]

    def holds(self, test_src: str) -> bool | None:
        """polarity assumed for a normalised test on this path (last one wins), else None."""
        r = None
        for t, p in self.assumes():
            if t == test_src:
                r = p
        return r

    def feasible(self) -> bool:
        seen: dict[str, bool] = {}
        for e in self:
            if e[0] == "assume":
                t, p = e[1], e[2]
                if t in seen and seen[t] != p:
                    return False
                seen[t] = p
            elif e[0] in ("stmt", "loop"):
                killed = _assigned(e[1])
                if killed:
                    for t in list(seen):
                        if _names_read(t) & killed:
                            del seen[t]
        return True


def paths(fn: ast.FunctionDef | list[ast.stmt]) -> list[Path]:
    body = fn if isinstance(fn, list) else fn.body
    out: list[Path] = []
    for p in _walk(body, Path()):
        if p and p[-1][0] == "exit":
            out.append(p)
        else:
            out.append(Path(p + [("exit", "fall", None)]))
        if len(out) > MAX_PATHS:
            raise Unsupported("too many paths")
    return [p for p in out if p.feasible()]


def _walk(body: list[ast.stmt], prefix: Path) -> Iterator[Path]:
    """Yield the paths through `body` starting from `prefix`.  A yielded path
    either ends in an exit event or falls through the end of body."""
    if not body:
        yield prefix
        return
    st, rest = body[0], body[1:]

    def cont(p: Path) -> Iterator[Path]:
        if p and p[-1][0] == "exit":
            yield p
        else:
            yield from _walk(rest, p)

    if isinstance(st, ast.Return):
        yield Path(prefix + [("exit", "return", st)])
    elif isinstance(st, ast.Raise):
        yield Path(prefix + [("exit", "raise", st)])
    elif isinstance(st, ast.If):
        for conj in decide(st.test, True):
            for p in _walk(st.body, Path(prefix + [("assume", t, pol) for t, pol in conj])):
                yield from cont(p)
        for conj in decide(st.test, False):
            for p in _walk(st.orelse, Path(prefix + [("assume", t, pol) for t, pol in conj])):
                yield from cont(p)
    elif isinstance(st, (ast.While, ast.For, ast.AsyncFor)):
        yield from cont(Path(prefix + [("loop", st)]))
    elif isinstance(st, (ast.With, ast.AsyncWith)):
        for p in _walk(st.body, Path(prefix + [("stmt", ast.Expr(value=i.context_expr)) for i in st.items])):
            yield from cont(p)
    elif isinstance(st, ast.Try):
        # normal completion of the body, or any handler taken from the start of the body
        for p in _walk(st.body + st.orelse, prefix):
            if p and p[-1][0] == "exit":
                yield p
            else:
                for q in _walk(st.finalbody, p):
                    yield from cont(q)
        for h in st.handlers:
            ht = un(h.type) if h.type is not None else "BaseException"
            for p in _walk(h.body, Path(prefix + [("assume", f"<except {ht}>", True)])):
                if p and p[-1][0] == "exit":
                    yield p
                else:
                    for q in _walk(st.finalbody, p):
                        yield from cont(q)
    elif isinstance(st, (ast.FunctionDef, ast.AsyncFunctionDef, ast.ClassDef, ast.Pass, ast.Import,
                         ast.ImportFrom, ast.Global, ast.Nonlocal)):
        yield from cont(prefix)
    elif isinstance(st, ast.Expr) and isinstance(st.value, ast.Constant):
        yield from cont(prefix)  # docstring
    else:
        yield from cont(Path(prefix + [("stmt", st)]))


def reaching(path: Path, name: str, upto: int | None = None) -> ast.expr | None:
    """The expression last assigned to local `name` on `path` (before event index `upto`)."""
    val = None
    for i, e in enumerate(path):
        if upto is not None and i >= upto:
            break
        if e[0] == "stmt":
            st = e[1]
            if isinstance(st, ast.Assign):
                for t in st.targets:
                    if isinstance(t, ast.Name) and t.id == name:
                        val = st.value
                    elif isinstance(t, ast.Tuple) and isinstance(st.value, ast.Tuple) and len(t.elts) == len(st.value.elts):
                        for a, b in zip(t.elts, st.value.elts):
                            if isinstance(a, ast.Name) and a.id == name:
                                val = b
                    elif isinstance(t, ast.Tuple):
                        for i, a in enumerate(t.elts):
                            if isinstance(a, ast.Name) and a.id == name:
                                val = ast.Subscript(st.value, ast.Constant(i), ast.Load())
            elif isinstance(st, ast.AnnAssign) and isinstance(st.target, ast.Name) and st.target.id == name and st.value:
                val = st.value
            elif isinstance(st, ast.AugAssign) and isinstance(st.target, ast.Name) and st.target.id == name:
                # self-referential: the earlier value is resolved by subst_path on the truncated path
                val = ast.BinOp(left=ast.Name(id=name, ctx=ast.Load()), op=st.op, right=st.value)
    return val


def subst_path(path: Path, expr: ast.expr, params: set[str], depth: int = 0) -> ast.expr:
    """Substitute local names in `expr` by their reaching definitions on `path`
    (final state), leaving parameters alone.  Used to express a return value
    in terms of the function's inputs."""
    from .core import clone

    class S(ast.NodeTransformer):
        def visit_Name(self, node: ast.Name):
            if isinstance(node.ctx, ast.Load):
                v = reaching(path, node.id)
                if v is not None and depth < 12:
                    # cut the path just before the defining statement to resolve nested names
                    return subst_path(_before(path, node.id), v, params, depth + 1)
            return node

    return S().visit(clone(expr))


def _before(path: Path, name: str) -> Path:
    """path truncated just before the last assignment to `name`."""
    last = None
    for i, e in enumerate(path):
        if e[0] == "stmt" and name in _assigned(e[1]):
            last = i
    return Path(path[:last]) if last is not None else path
