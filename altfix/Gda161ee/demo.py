"""Compiled ISO 8601 duration parser: the fractional part of an hour, day or
week component must be carried down exactly (rounded at the microsecond only).
Expected totals are computed with exact rational arithmetic (fractions)."""
import itertools
import sys

from fractions import Fraction

from pendulum._pendulum import parse_iso8601  # the compiled parser
from pendulum.parsing.iso8601 import parse_iso8601 as py_parse_iso8601

US = {"W": 7 * 86400 * 10**6, "D": 86400 * 10**6, "H": 3600 * 10**6,
      "M": 60 * 10**6, "S": 10**6}
failures = []


def total_us(d):
    return (((d.weeks * 7 + d.days) * 24 + d.hours) * 60 + d.minutes) * 60 * 10**6 \
        + d.seconds * 10**6 + d.microseconds


def check(text, want_us):
    try:
        got = total_us(parse_iso8601(text))
    except Exception as e:
        failures.append(f"{text}: raised {e!r}")
        return
    if got != want_us:
        failures.append(f"{text}: {got} us, expected {want_us} us")


# hand-computed examples from the report
check("PT0.0001H", 360_000)                 # 0.36 s
check("P0.001W", 604_800_000)               # 10 min 4.8 s
check("P0.00001D", 864_000)                 # 0.864 s
check("P1.5W", (7 + 3) * 86400 * 10**6 + 12 * 3600 * 10**6)
check("PT1.5H", 5400 * 10**6)

# every fraction with up to 6 digits is a whole number of microseconds
digits = ["0001", "001", "01", "5", "25", "125", "999999", "000001", "123456",
          "3", "33", "333", "7", "07", "0007", "48", "9", "99", "05", "000049"]
for whole, frac in itertools.product((0, 1, 12), digits):
    f = Fraction(int(frac), 10 ** len(frac)) + whole
    for text, unit in ((f"P{whole}.{frac}W", "W"), (f"P{whole}.{frac}D", "D"),
                       (f"PT{whole}.{frac}H", "H"), (f"PT{whole}.{frac}M", "M"),
                       (f"P{whole},{frac}D", "D"), (f"PT{whole},{frac}H", "H")):
        want = f * US[unit]
        assert want.denominator == 1
        check(text, int(want))
    # with other components around the fractional one
    want = 3 * US["D"] + f * US["H"]
    check(f"P3DT{whole}.{frac}H", int(want))
    want = 2 * US["D"] + 4 * US["H"] + f * US["M"]
    check(f"P2DT4H{whole}.{frac}M", int(want))

# the pure-Python parser is the reference the report mentions: same length
for text in ("PT0.0001H", "P0.001W", "P0.00001D", "P1.5W", "PT2.999999H", "P0.9999999W"):
    ref = py_parse_iso8601(text)
    ref_us = (ref.days * 86400 + ref.seconds) * 10**6 + ref.microseconds
    check(text, ref_us)

# the split of well-known values over the fields is unchanged
d = parse_iso8601("P1.5W")
if (d.weeks, d.days, d.hours, d.minutes, d.seconds, d.microseconds) != (1, 3, 12, 0, 0, 0):
    failures.append("P1.5W fields changed")
d = parse_iso8601("P2Y3M4DT5H6.5M")
if (d.years, d.months, d.days, d.hours, d.minutes, d.seconds, d.microseconds) != (2, 3, 4, 5, 6, 30, 0):
    failures.append("P2Y3M4DT5H6.5M fields changed")

for f in failures[:25]:
    print("FAIL", f)
print("failures:", len(failures))
sys.exit(1 if failures else 0)
