"""from_format() must read back what format() wrote when the format holds
bracketed (literal) text made of token letters.  Expected values are checked
against the standard library datetime."""
import sys
from datetime import datetime, timedelta, timezone

import pendulum

failures = []


def check(label, func, expected):
    try:
        got = func()
    except Exception as e:  # noqa: BLE001
        failures.append(f"{label}: raised {type(e).__name__}: {e}")
        return
    if got != expected:
        failures.append(f"{label}: got {got!r}, expected {expected!r}")


def fields(d):
    return (
        d.year, d.month, d.day, d.hour, d.minute, d.second, d.microsecond,
        d.utcoffset(),
    )


# hand-written inputs from the report
check(
    "YYYY [at] HH",
    lambda: (lambda d: (d.year, d.hour))(pendulum.from_format("2021 at 11", "YYYY [at] HH")),
    (2021, 11),
)
check(
    "YYYY [offset]Z",
    lambda: (lambda d: (d.year, d.utcoffset()))(
        pendulum.from_format("2021 offset+01:00", "YYYY [offset]Z")
    ),
    (2021, timedelta(hours=1)),
)
# the literal text is required, and only it is accepted
for bad in ("2021 11", "2021 a 11", "2021 AT 11", "2021 pm 11"):
    try:
        pendulum.from_format(bad, "YYYY [at] HH")
    except ValueError:
        pass
    else:
        failures.append(f"{bad!r} accepted for 'YYYY [at] HH'")

# round trips, reference = stdlib datetime
ref = datetime(2021, 3, 7, 16, 5, 9, 123456, tzinfo=timezone(timedelta(hours=-3, minutes=-30)))
dt = pendulum.instance(ref)
formats = [
    "[on] YYYY-MM-DD [at] HH:mm:ss.SSSSSS [offset]Z",
    "YYYY-MM-DD[T]HH:mm:ss.SSSSSS[Z]",
    "[Year] YYYY [Month] MM [Day] DD [Hour] HH [Minute] mm [Second] ss [Micro] SSSSSS [Zone] ZZ",
    "[Today is] dddd, MMMM Do YYYY [at] h:mm:ss.SSSSSS A [(offset] Z[)]",
    "YYYY[YYYY]MM[MM]DD[DD] HH[hh]mm[mm]ss[ss].SSSSSS Z",
    "[a.b*c+d?] YYYY-MM-DD HH:mm:ss.SSSSSS Z",
]
for f in formats:
    text = dt.format(f)
    expected = fields(ref)
    if f.endswith("[Z]"):
        # no offset token: the result is UTC
        expected = (*expected[:7], timedelta(0))
    check(f"round trip {f!r} ({text!r})", lambda: fields(pendulum.from_format(text, f)), expected)

# single letters and plain formats keep working
check(
    "YYYY-MM-DD[T]HH:mm:ssZ",
    lambda: fields(pendulum.from_format("1975-05-21T22:32:11+00:00", "YYYY-MM-DD[T]HH:mm:ssZ")),
    (1975, 5, 21, 22, 32, 11, 0, timedelta(0)),
)
check(
    "YYYY-MM-DD HH:mm:ss",
    lambda: fields(pendulum.from_format("1975-05-21 22:32:11", "YYYY-MM-DD HH:mm:ss")),
    (1975, 5, 21, 22, 32, 11, 0, timedelta(0)),
)

for f in failures:
    print("FAIL", f)
print("failures:", len(failures))
sys.exit(1 if failures else 0)
