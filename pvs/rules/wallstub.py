"""A closed wall-clock world for evaluating the unit modifiers of pendulum's DateTime / Date (start_of / end_of and every
helper they reach) with the checker's interpreter (rules/minieval.py).

An instance stub carries a naive `datetime.datetime` wall time (standard library) and a fold.  Its class part is the analysed
source: start_of, end_of, the `_start_of_<unit>` / `_end_of_<unit>` helpers, next / previous and whatever private helper a
refactoring adds are interpreted.  What they bottom out in is given by this module with the semantics the other properties
establish (C01/C02: Timezone.convert, C03: add): `set` / `on` / `at` / `replace` re-create the wall time with the fold of
the receiver (replace: the fold given), calendar `add` / `subtract` re-create it with fold=1, clock `add` / `subtract` move the
instant, `create` / `pendulum.datetime` take an explicit fold (default 1); `utcoffset()`, `naive()`, `tz.utcoffset(native)`
answer from the scenario.

A scenario is one transition of the zone: ("skip", T, L): the wall times [T, T+L) do not exist (offset O before, O+L after);
("repeat", T, L): the clocks are put back at T to T-L, the wall times [T-L, T) occur twice (offset O, then O-L).  A wall time
inside a skipped interval is moved forward by L for fold=1 and backward by L for fold=0, as Timezone.convert does.

Nothing of pendulum is imported or run."""
from __future__ import annotations

import ast
import calendar as _calendar
import datetime as _dt
from typing import Any

from .. import core
from . import minieval
from .calstub import WEEKDAY, WEEKDAYS, _format, _shift
from .minieval import ClassStub, Obj, Stub

O = _dt.timedelta(hours=2)          # offset before the transition
US = _dt.timedelta(microseconds=1)


class Zone(_dt.tzinfo):
    """the zone of a scenario as a tzinfo object (so that standard-library datetimes can carry it): utcoffset / fromutc / convert answer
    from the scenario's transition"""

    def __init__(self, world):
        self._world, self.name = world, "Scenario/Zone"

    def utcoffset(self, native):
        return self._world._tz_utcoffset(native)

    def dst(self, native):
        return _dt.timedelta(0)

    def tzname(self, native):
        return self.name

    def fromutc(self, native):
        # the tzinfo contract: `native` carries this zone and the UTC clock; the answer is the wall time of that instant, in this zone
        if native.tzinfo is not self:
            raise ValueError("fromutc: dt.tzinfo is not self")
        w, f = self._world.from_instant(native.replace(tzinfo=None))
        return w.replace(fold=f, tzinfo=self)

    def convert(self, native, raise_on_unknown_times=False):
        return self._world._tz_convert(native, raise_on_unknown_times)

    def datetime(self, *a, **k):
        raise core.Unsupported("tz.datetime() in the scenario world")

    def __reduce__(self):
        return (object, ())


class World:
    _STATIC: dict[tuple[int, str], tuple] = {}

    def __init__(self, m: core.Mod, cls: str, transition=None, week=(0, 6), extra: dict[str, ast.FunctionDef] | None = None,
                 interpret_add: bool = False, base_offset: _dt.timedelta | None = None):
        self.m, self.cls, self.tr = m, cls, transition
        self.O = O if base_offset is None else base_offset       # offset before the transition (0: a zone like Europe/London)
        self.interpret_add = interpret_add      # add()/subtract() taken from the analysed source instead of being primitives
        key = (id(m), cls)
        if key not in World._STATIC:
            meths: dict[str, ast.FunctionDef] = dict(extra or {})
            meths.update(m.methods_mro(cls))         # base classes of other modules included (mixins): found where Python finds them
            props = {k for k, f in meths.items() if any(core.dotted(d) == "property" for d in f.decorator_list)}
            consts = minieval.module_consts(m)
            funcs = {st.name: st for st in m.top() if isinstance(st, ast.FunctionDef)}
            fields = {}
            for st in m.cls(cls).body:
                tgt = st.targets[0] if isinstance(st, ast.Assign) and len(st.targets) == 1 else st.target if isinstance(st, ast.AnnAssign) else None
                if isinstance(tgt, ast.Name) and getattr(st, "value", None) is not None:
                    try:
                        fields[tgt.id] = core.fold(st.value, m, cls)
                    except Exception:       # noqa: BLE001
                        pass
            World._STATIC[key] = (m, meths, props, consts, funcs, fields)
        _, self.meths, self.props, consts, funcs, self.class_fields = World._STATIC[key]
        self.tz = Zone(self)
        if interpret_add:
            import math
            hm = core.pmod("helpers")
            hfuncs = {st.name: st for st in hm.top() if isinstance(st, ast.FunctionDef)}
            hglob = {**minieval.module_consts(hm), "date": _dt.date, "datetime": _dt.datetime, "timedelta": _dt.timedelta, "copysign": math.copysign,
                     "is_leap": lambda y: y % 4 == 0 and (y % 100 != 0 or y % 400 == 0), "DAYS_PER_MONTHS": core.const("constants", "DAYS_PER_MONTHS"),
                     "RuntimeError": ValueError, "ValueError": ValueError}
            self._add_duration = (hfuncs["add_duration"], {**hfuncs, "$globals": hglob})
        self.ctor = ClassStub(_new=self._construct, _isa=lambda v: isinstance(v, Obj), create=self._create, instance=self._instance, _methods=lambda: self.meths, _funcs=None)
        self.glob: dict[str, Any] = dict(funcs)
        if interpret_add:
            self.glob["add_duration"] = self._add_duration
        pend = Stub(datetime=self._create, date=lambda y, mo, d: self.date(_dt.date(y, mo, d)), instance=self._instance,
                    DateTime=self.ctor, Date=self.ctor, _WEEK_STARTS_AT=week[0], _WEEK_ENDS_AT=week[1])
        self.glob["$globals"] = {**consts, "WeekDay": WEEKDAY, "pendulum": pend, "ValueError": ValueError, "int": int, "str": str,
                                 "calendar": minieval.std_module("calendar"),
                                 "datetime": Stub(datetime=_dt.datetime, timedelta=_dt.timedelta, date=_dt.date, time=_dt.time, timezone=_dt.timezone),
                                 "DateTime": self.ctor, "Date": self.ctor, "UTC": _dt.timezone.utc, "date": _dt.date, "timedelta": _dt.timedelta, "any": any}

    # -- the zone ----------------------------------------------------------------------------------------------------------
    def ambiguous(self, w: _dt.datetime) -> bool:
        return self.tr is not None and self.tr[0] == "repeat" and self.tr[1] - self.tr[2] <= w < self.tr[1]

    def skipped(self, w: _dt.datetime) -> bool:
        return self.tr is not None and self.tr[0] == "skip" and self.tr[1] <= w < self.tr[1] + self.tr[2]

    def resolve(self, w: _dt.datetime, fold: int) -> _dt.datetime:
        if self.skipped(w):
            return w + self.tr[2] if fold == 1 else w - self.tr[2]
        return w

    def place(self, w: _dt.datetime, fold: int) -> Obj:
        """the value Timezone.convert leaves for a wall time and a fold: a skipped wall time is moved with datetime arithmetic, which
        resets the fold to 0; any other keeps the fold it was given"""
        if self.skipped(w):
            return self.datetime(self.resolve(w, fold), 0)
        return self.datetime(w, fold)

    def offset(self, w: _dt.datetime, fold: int) -> _dt.timedelta:
        if self.tr is None:
            return self.O
        kind, t, ln = self.tr
        if kind == "skip":
            if w < t:
                return self.O
            if w >= t + ln:
                return self.O + ln
            return self.O if fold == 0 else self.O + ln
        if w < t - ln:
            return self.O
        if w >= t:
            return self.O - ln
        return self.O if fold == 0 else self.O - ln

    def instant(self, v: Obj) -> _dt.datetime:
        d = vars(v)
        return d["_wall"] - self.offset(d["_wall"], d["fold"])

    def from_instant(self, inst: _dt.datetime) -> tuple[_dt.datetime, int]:
        if self.tr is None:
            return inst + self.O, 0
        kind, t, ln = self.tr
        ti = t - self.O                      # the instant of the transition
        if inst < ti:
            return inst + self.O, 0
        if kind == "skip":
            return inst + self.O + ln, 0
        w = inst + self.O - ln
        return w, (1 if self.ambiguous(w) else 0)

    def _tz_utcoffset(self, native):
        return self.offset(native.replace(tzinfo=None, fold=0), native.fold)

    def _tz_convert(self, native, raise_on_unknown_times=False):
        if native.tzinfo is _dt.timezone.utc:          # an instant: astimezone semantics
            w, f = self.from_instant(native.replace(tzinfo=None))
            return w.replace(fold=f)
        if native.tzinfo is self.tz:                     # already in this zone: the same instant, re-read
            w, f = self.from_instant(native.replace(tzinfo=None) - self.offset(native.replace(tzinfo=None, fold=0), native.fold))
            return w.replace(fold=f)
        if native.tzinfo is None:                        # a wall time to be normalised
            w = native.replace(fold=0)
            if self.skipped(w):
                return self.resolve(w, native.fold)      # datetime arithmetic: fold 0
            return native
        raise core.Unsupported("tz.convert() of a value in another zone")

    # -- values ------------------------------------------------------------------------------------------------------------
    def _construct(self, *a, **k):
        if self.cls == "Date":
            f = dict(zip(["year", "month", "day"], a))
            f.update(k)
            return self.date(_dt.date(f["year"], f["month"], f["day"]))
        names = ["year", "month", "day", "hour", "minute", "second", "microsecond", "tzinfo"]
        f = dict(zip(names, a))
        f.update(k)
        fold = f.pop("fold", 0)
        tzinfo = f.pop("tzinfo", None)
        w = _dt.datetime(**{n: f.get(n, 0) for n in names[:7]})
        if tzinfo is not self.tz:
            return self.datetime(w, fold, zone=tzinfo if isinstance(tzinfo, (Stub, Zone)) else self.other_zone(tzinfo))
        if self.skipped(w):
            raise core.Unsupported("DateTime(...) constructed directly on a skipped wall time")
        return self.datetime(w, fold)

    def _create(self, year, month, day, hour=0, minute=0, second=0, microsecond=0, tz="UTC (the default of create())", fold=1, raise_on_unknown_times=False):
        w = _dt.datetime(year, month, day, hour, minute, second, microsecond)
        if tz is not self.tz:
            # built in another zone than the scenario's (the UTC default, None, ...): no transition applies there
            return self.datetime(w, fold, zone=self.other_zone(tz))
        return self.place(w, fold)

    def _instance(self, v, tz="UTC (the default of instance())"):
        """DateTime.instance(dt, tz=UTC): a value with a tzinfo keeps it; a naive one is read in `tz`"""
        d = vars(v) if isinstance(v, Obj) else None
        if d is None:
            raise core.Unsupported("instance() of a native value in the scenario world")
        if d.get("tzinfo") is not None or tz is None:
            return v
        return self.datetime(d["_wall"], d["fold"], zone=self.other_zone(tz))

    def other_zone(self, tz):
        return Stub(name=f"{getattr(tz, 'name', tz)}", _eqkey=("other", str(getattr(tz, "name", tz))))

    def date(self, d: _dt.date) -> Obj:
        def std(f, *a):
            """a date of the standard library built from plain numbers: what it raises for numbers out of range is an outcome of the analysed code"""
            try:
                return f(*a)
            except (ValueError, OverflowError) as e:
                raise minieval.Raised(f"raise reached: {type(e).__name__}: {e}", type(e).__name__) from None

        def set_(year=None, month=None, day=None):
            return self.date(std(_dt.date, d.year if year is None else year, d.month if month is None else month, d.day if day is None else day))

        def add(years=0, months=0, weeks=0, days=0):
            return self.date(std(_shift, d, years, months, weeks, days))

        def subtract(years=0, months=0, weeks=0, days=0):
            return self.date(std(_shift, d, -years, -months, -weeks, -days))
        own = self.cls == "Date"
        prim = dict(set=set_, replace=set_, on=set_, add=add, subtract=subtract)
        if own and self.interpret_add:
            del prim["add"], prim["subtract"]
        if not own:
            # the Date a DateTime hands out (date()): its class part is the analysed Date as well
            key = ("Date-of", id(self.m))
            if key not in World._STATIC:
                dm_ = core.pmod("date")
                dmeths = dm_.methods_mro("Date")
                World._STATIC[key] = (dmeths, {k for k, f in dmeths.items() if any(core.dotted(x) == "property" for x in f.decorator_list)}, minieval.class_level(dm_, "Date"),
                                      {**{st.name: st for st in dm_.top() if isinstance(st, ast.FunctionDef)},
                                       "$globals": {**minieval.module_consts(dm_), "WeekDay": WEEKDAY, "calendar": minieval.std_module("calendar"), "ValueError": ValueError,
                                                    "pendulum": Stub(_WEEK_STARTS_AT=(self.glob["$globals"]["pendulum"])._WEEK_STARTS_AT, _WEEK_ENDS_AT=(self.glob["$globals"]["pendulum"])._WEEK_ENDS_AT),
                                                    "date": _dt.date, "timedelta": _dt.timedelta, "int": int, "str": str}})
            dmeths, dprops, dfields, dfuncs = World._STATIC[key]
            dctor = ClassStub(_new=lambda y, mo, dd: self.date(std(_dt.date, y, mo, dd)), _isa=lambda v: isinstance(v, Obj), _methods=lambda: dmeths, _funcs=dfuncs)
            return Obj(_methods=dmeths, _props=dprops - {"day_of_week", "quarter", "days_in_month"}, _ctor=dctor, _funcs=dfuncs,
                       _natives={}, _date=d, _wall=None, _eqkey=(d.toordinal(), 0), _types=(_dt.date,), **dfields,
                       year=d.year, month=d.month, day=d.day, day_of_week=WEEKDAYS[d.weekday()], quarter=(d.month - 1) // 3 + 1,
                       days_in_month=_calendar.monthrange(d.year, d.month)[1], format=lambda f, *a, **k: _format(d, f),
                       weekday=d.weekday, isoweekday=d.isoweekday, toordinal=d.toordinal, **prim)
        return Obj(_methods=self.meths if own else {}, _props=self.props if own else set(), _ctor=self.ctor,
                   _natives={}, _date=d, _wall=None, _eqkey=(d.toordinal(), 0), _types=(_dt.date,), **({k: v for k, v in self.class_fields.items()} if own else {}),
                   year=d.year, month=d.month, day=d.day, day_of_week=WEEKDAYS[d.weekday()], quarter=(d.month - 1) // 3 + 1,
                   days_in_month=_calendar.monthrange(d.year, d.month)[1], format=lambda f, *a, **k: _format(d, f),
                   weekday=d.weekday, isoweekday=d.isoweekday, toordinal=d.toordinal, **prim)

    def datetime(self, w: _dt.datetime, fold: int, zone=None) -> Obj:
        wd = self
        zone = self.tz if zone is None else zone
        F = ("year", "month", "day", "hour", "minute", "second", "microsecond")

        def fields(kw):
            try:
                return _dt.datetime(*[getattr(w, n) if kw.get(n) is None else kw[n] for n in F])
            except (ValueError, OverflowError) as e:       # numbers out of range: what the standard-library constructor raises is an outcome of the analysed code
                raise minieval.Raised(f"raise reached: {type(e).__name__}: {e}", type(e).__name__) from None

        def set_(year=None, month=None, day=None, hour=None, minute=None, second=None, microsecond=None, tz=None):
            nw = fields(dict(year=year, month=month, day=day, hour=hour, minute=minute, second=second, microsecond=microsecond))
            return wd.place(nw, fold)

        def replace(year=None, month=None, day=None, hour=None, minute=None, second=None, microsecond=None, tzinfo=True, fold=None):
            f = vars(me)["fold"] if fold is None else fold
            nw = fields(dict(year=year, month=month, day=day, hour=hour, minute=minute, second=second, microsecond=microsecond))
            return wd.place(nw, f)

        def on(year, month, day):
            return set_(year=year, month=month, day=day)

        def at(hour, minute=0, second=0, microsecond=0):
            return set_(hour=hour, minute=minute, second=second, microsecond=microsecond)

        def add(years=0, months=0, weeks=0, days=0, hours=0, minutes=0, seconds=0, microseconds=0):
            if years or months or weeks or days:
                nd = _shift(w.date(), years, months, weeks, days)
                nw = _dt.datetime.combine(nd, w.time()) + _dt.timedelta(hours=hours, minutes=minutes, seconds=seconds, microseconds=microseconds)
                return wd.place(nw, 1)
            nw, nf = wd.from_instant(wd.instant(me) + _dt.timedelta(hours=hours, minutes=minutes, seconds=seconds, microseconds=microseconds))
            return wd.datetime(nw, nf)

        def subtract(years=0, months=0, weeks=0, days=0, hours=0, minutes=0, seconds=0, microseconds=0):
            return add(-years, -months, -weeks, -days, -hours, -minutes, -seconds, -microseconds)

        own = self.cls == "DateTime"
        me = Obj(_methods=self.meths if own else {}, _props=self.props if own else set(), _ctor=self.ctor,
                 _natives={}, _wall=w, _date=w.date(), _eqkey=(w,), _types=(_dt.datetime,), **({k: v for k, v in self.class_fields.items()} if own else {}),
                 year=w.year, month=w.month, day=w.day, hour=w.hour, minute=w.minute, second=w.second, microsecond=w.microsecond, fold=fold,
                 day_of_week=WEEKDAYS[w.weekday()], quarter=(w.month - 1) // 3 + 1, days_in_month=_calendar.monthrange(w.year, w.month)[1],
                 tz=zone, tzinfo=zone, timezone=zone, timezone_name=getattr(zone, "name", ""),
                 set=set_, replace=replace, on=on, at=at, **({} if (own and self.interpret_add) else dict(add=add, subtract=subtract)),
                 utcoffset=lambda: wd.offset(w, fold), dst=lambda: _dt.timedelta(0),      # (the transition of a scenario is a change of the standard offset: no daylight saving time on either side)
                 naive=lambda: Stub(_eqkey=(w,), _wall=w),
                 timestamp=lambda: (wd.instant(me) - _dt.datetime(1970, 1, 1)).total_seconds() if zone is wd.tz else (_ for _ in ()).throw(core.Unsupported("timestamp() in another zone")),
                 astimezone=lambda tz=None: (wd.instant(me).replace(tzinfo=_dt.timezone.utc) if tz is _dt.timezone.utc and zone is wd.tz
                                             else (_ for _ in ()).throw(core.Unsupported("astimezone() to another zone than UTC in the scenario world"))),
                 date=lambda: wd.date(w.date()), format=lambda f, *a, **k: _format(w.date(), f), weekday=w.weekday, isoweekday=w.isoweekday)
        return me

    def call(self, recv: Obj, name: str, args: list[Any], kws: dict[str, Any] | None = None):
        return minieval.call(self.meths[name], [recv] + args, kws or {}, self.glob)


ERRORS = (core.Unsupported, KeyError, TypeError, AttributeError, IndexError, RecursionError, ZeroDivisionError)


class TimeWorld:
    """instance stubs of pendulum.Time (class part: the analysed time.py); DateTime.EPOCH is a value of the wall-clock world in a
    zone without transition, Duration / AbsoluteDuration record their arguments"""

    def __init__(self, m: core.Mod):
        self.m = m
        self.meths = m.methods_mro("Time")
        self.props = {k for k, f in self.meths.items() if any(core.dotted(d) == "property" for d in f.decorator_list)}
        self.ctor = ClassStub(_new=self._construct, _isa=lambda v: isinstance(v, Obj) and "_tod" in vars(v), _methods=lambda: self.meths, _funcs=None)
        dm = core.pmod("datetime")
        self.dtw = World(dm, "DateTime", extra=core.pmod("date").methods("Date"), base_offset=_dt.timedelta(0))
        consts = minieval.module_consts(m)

        def dur(kind):
            def mk(*a, **k):
                if a or set(k) - {"microseconds", "seconds"}:
                    raise core.Unsupported(f"{kind}{a}{k}")
                us = k.get("microseconds", 0) + k.get("seconds", 0) * 10**6
                # (compared as the timedelta it is: by its native value, which keeps the sign for the absolute class too)
                return Stub(_kind=kind, _us=us, _eqkey=us, _types=(_dt.timedelta,), _native=_dt.timedelta(microseconds=us), total_seconds=lambda: (abs(us) if kind == "AbsoluteDuration" else us) / 10**6,
                            in_seconds=lambda: int((abs(us) if kind == "AbsoluteDuration" else us) / 10**6))
            return ClassStub(_new=mk, _isa=lambda v: isinstance(v, Stub) and getattr(v, "_kind", None) in (("Duration", "AbsoluteDuration") if kind == "Duration" else (kind,)))
        self.glob: dict[str, Any] = {st.name: st for st in m.top() if isinstance(st, ast.FunctionDef)}
        self.glob["$globals"] = {**consts, "Time": self.ctor, "time": _dt.time, "timedelta": _dt.timedelta, "datetime": Stub(time=_dt.time, timedelta=_dt.timedelta, date=_dt.date, timezone=_dt.timezone, tzinfo=_dt.tzinfo,
                                                  # the native class: combine() reads a Time stub as the standard-library time it is
                                                  datetime=ClassStub(_new=_dt.datetime, _isa=lambda v: isinstance(v, _dt.datetime), min=_dt.datetime.min, max=_dt.datetime.max,
                                                                     combine=lambda d, t, *a: _dt.datetime.combine(d, vars(t)["_tod"].replace(tzinfo=vars(t).get("tzinfo"), fold=vars(t).get("fold", 0))
                                                                                                                  if isinstance(t, Obj) else t, *a))),
                                 "date": _dt.date,
                                 "Duration": dur("Duration"), "AbsoluteDuration": dur("AbsoluteDuration"), "NotImplemented": NotImplemented, "TypeError": TypeError,
                                 "DateTime": Stub(EPOCH=self._epoch()), "pendulum": Stub(Duration=dur("Duration")), "UTC": _dt.timezone.utc}

    def _epoch(self) -> Obj:
        e = self.dtw.datetime(_dt.datetime(1970, 1, 1), 0)
        return self._with_time(e)

    def _with_time(self, v: Obj) -> Obj:
        """DateTime values of this world answer time() with a Time stub and keep doing so through at()/add()/subtract()"""
        d = vars(v)
        for name in ("at", "add", "subtract", "set", "replace"):
            if name in d:
                f = d[name]
                d[name] = (lambda f_: lambda *a, **k: self._with_time(f_(*a, **k)))(f)
        w = d["_wall"]
        d["time"] = lambda: self.time(w.hour, w.minute, w.second, w.microsecond)
        return v

    def _construct(self, hour=0, minute=0, second=0, microsecond=0, tzinfo=None, fold=0):
        return self.time(hour, minute, second, microsecond, tzinfo, fold)

    def time(self, hour=0, minute=0, second=0, microsecond=0, tzinfo=None, fold=0) -> Obj:
        t = _dt.time(hour, minute, second, microsecond)
        return Obj(_methods=self.meths, _props=self.props, _ctor=self.ctor, _natives={}, _tod=t, _eqkey=(t,), _types=(_dt.time,),
                   hour=hour, minute=minute, second=second, microsecond=microsecond, tzinfo=tzinfo, fold=fold)

    def call(self, recv, name: str, args: list[Any], kws: dict[str, Any] | None = None):
        return minieval.call(self.meths[name], [recv] + args, kws or {}, self.glob)
