"""from_format() must read the values from the match of the whole string.
Day/month names that are a prefix of another name of the same locale
(tr: Cuma/Cumartesi, Pazar/Pazartesi) must be read back correctly.
Expected dates are hand-computed / come from datetime.date.weekday()."""
import sys
from datetime import date, timedelta

import pendulum

failures = []

# hand-computed: 2024-01-06 is a Saturday (Cumartesi), 2024-01-01 a Monday (Pazartesi)
assert date(2024, 1, 6).weekday() == 5 and date(2024, 1, 1).weekday() == 0
hand = [
    ("Cumartesi 06 Ocak 2024", "dddd DD MMMM YYYY", "tr", date(2024, 1, 6)),
    ("Cuma 05 Ocak 2024", "dddd DD MMMM YYYY", "tr", date(2024, 1, 5)),
    ("Pazartesi 01 Ocak 2024", "dddd DD MMMM YYYY", "tr", date(2024, 1, 1)),
    ("Pazar 07 Ocak 2024", "dddd DD MMMM YYYY", "tr", date(2024, 1, 7)),
    ("2024-01-06 Cumartesi", "YYYY-MM-DD dddd", "tr", date(2024, 1, 6)),
    ("Saturday 06 January 2024", "dddd DD MMMM YYYY", "en", date(2024, 1, 6)),
]
for text, fmt, loc, want in hand:
    try:
        got = pendulum.from_format(text, fmt, locale=loc)
        if (got.year, got.month, got.day) != (want.year, want.month, want.day):
            failures.append((text, loc, got.to_date_string(), str(want)))
    except Exception as e:  # noqa: BLE001
        failures.append((text, loc, repr(e)))

# every weekday of two weeks, formatted by pendulum in the locale and read back;
# the weekday token decides the day inside the week of the given date
fmt = "dddd DD MMMM YYYY"
for loc in ("tr", "en", "fr", "de"):
    d = date(2024, 1, 1)
    for i in range(14):
        cur = d + timedelta(days=i)
        text = pendulum.datetime(cur.year, cur.month, cur.day).format(fmt, locale=loc)
        got = pendulum.from_format(text, fmt, locale=loc)
        if (got.year, got.month, got.day) != (cur.year, cur.month, cur.day) or got.weekday() != cur.weekday():
            failures.append((loc, text, got.to_date_string(), str(cur)))

# the anchored check is still enforced
for bad in ("Cumartesi 06 Ocak 2024 x", "x Cumartesi 06 Ocak 2024", "Cumartes 06 Ocak 2024"):
    try:
        pendulum.from_format(bad, fmt, locale="tr")
        failures.append(("accepted", bad))
    except ValueError:
        pass

for f in failures[:20]:
    print("FAIL", f)
print("ok" if not failures else f"{len(failures)} failures")
sys.exit(1 if failures else 0)
