"""C12 — start_of/end_of delimit exactly the calendar unit (structural clauses)."""
from __future__ import annotations

import ast

from .. import cfg, core
from ..core import nun, pmod, un
from ..rules.canon import Canon

EXPLANATION = (
    "Decided statically: (1) every entry of _MODIFIERS_VALID_UNITS has a _start_of_/_end_of_ method reachable "
    "through the MRO and no such method lacks an entry (DateTime 9, Date 6); (2) field lattice: _start_of_<u> "
    "sets every field below u to its minimum and _end_of_<u> to its maximum (12, days_in_month/31, 23, 59, 59, "
    "999999) while fields at or above u come from self; (3) decade/century year expressions in linear normal "
    "form: start = y - (y-b) mod N, end = start + N - 1 with (N,b) = (10,0), (100,1), identical in DateTime and "
    "Date; (4) week: previous()/_WEEK_STARTS_AT/start_of('day') and next()/_WEEK_ENDS_AT/end_of('day') are "
    "paired, the setters validate both bounds; (5) fold flow: for day-and-above units the dispatcher evaluates "
    "on a receiver whose fold is pinned (1 for start, 0 for end) and pins the opposite fold on the result, so the "
    "instance's own fold cannot reach create(); for second/minute/hour the instance itself is the receiver "
    "(its fold is forwarded by set()). NOT decided: neighbouring-microsecond clauses on days whose midnight is "
    "skipped or repeated (zone data)."
    " As built: UNIT.tabulated runs start_of/end_of and every helper they reach with the checker's interpreter in the wall-clock world of rules/wallstub.py (9 units x dates on leap days and unit ends x times x both folds x zone transitions that skip/repeat the first or last stretch of the unit x the 7 week configurations) and compares with the first/last existing instant of the unit computed by the checker's own calendar arithmetic, plus the side of the instance as instants, the zone and idempotence; where it succeeds the shape rules (field lists, year formulas, week pairing, fold flow) are established by it."
)

ORDER = ["year", "month", "day", "hour", "minute", "second", "microsecond"]
MIN = {"month": "1", "day": "1", "hour": "0", "minute": "0", "second": "0", "microsecond": "0"}
MAX = {"month": "12", "day": "31", "hour": "23", "minute": "59", "second": "59", "microsecond": "999999"}
LEVEL = {"second": 5, "minute": 4, "hour": 3, "day": 2, "month": 1, "year": 0, "decade": 0, "century": 0}
SET_P = ORDER + ["tz"]
AT_P = ["hour", "minute", "second", "microsecond"]


def _dispatch(ctx) -> None:
    for cls in ("DateTime", "Date"):
        m = pmod(core.CLASS_HOME[cls])
        units = core.const(core.CLASS_HOME[cls], "_MODIFIERS_VALID_UNITS", cls)
        defined = set()
        for c in core.MRO[cls]:
            for name in pmod(core.CLASS_HOME[c]).methods(c):
                for pre in ("_start_of_", "_end_of_"):
                    if name.startswith(pre):
                        defined.add(name)
        for u in units:
            for pre in ("_start_of_", "_end_of_"):
                ctx.ob("DISPATCH.exhaustive", f"{cls}.{pre}{u}", core.resolve_method(cls, pre + u) is not None,
                       f"'{u}' is a valid unit of {cls} but {pre}{u} is not defined (getattr would raise AttributeError)", m.rel)
        # modifiers are called as getattr(self, f"_start_of_{unit}")(): a method of that name taking further arguments is a helper
        own = {n for n, f in m.methods(cls).items() if n.startswith(("_start_of_", "_end_of_")) and len(core.params(f)) == 0}
        for n in sorted(own):
            u = n.split("_of_", 1)[1]
            ctx.ob("DISPATCH.listed", f"{cls}.{n}", u in units, f"{n} exists but '{u}' is not in {cls}._MODIFIERS_VALID_UNITS", m.rel,
                   nontrivial=False)
        for q in ("start_of", "end_of"):
            fn = m.func(f"{cls}.{q}")
            g = [n for n in core.walk_fn(fn) if isinstance(n, ast.If) and nun(n.test) == "unit not in self._MODIFIERS_VALID_UNITS"]
            ctx.ob("DISPATCH.guard", f"{cls}.{q}", len(g) == 1 and "ValueError" in un(g[0].body[0]),
                   "an unknown unit must raise ValueError before the getattr dispatch", m.loc(fn))
            pre = "_start_of_" if q == "start_of" else "_end_of_"
            calls = [c for c in core.calls(fn) if nun(c.func) == "getattr" and len(c.args) == 2]
            def name_of(a):      # a named intermediate (`helper = f"_start_of_{unit}"`) is looked through
                if isinstance(a, ast.Name):
                    vs = core.assigns_to(fn, a.id)
                    if len(vs) == 1:
                        return nun(vs[0])
                return nun(a)
            ok = bool(calls) and all(name_of(c.args[1]) == f"f'{pre}{{unit}}'" for c in calls)
            ctx.ob("DISPATCH.name", f"{cls}.{q}", ok, f"dispatch names {[name_of(c.args[1]) for c in calls]}; must be f'{pre}{{unit}}'", m.loc(fn))


def _field_map(m: core.Mod, cls: str, fn: ast.FunctionDef):
    """effective {field: expr string} of the single set()/at() call a modifier returns, or None."""
    r = core.returns(fn)
    if len(r) != 1:
        return None
    p = cfg.paths(fn)[0]
    v = core.strip_casts(r[0].value)
    if not isinstance(v, ast.Call):
        return None
    callee = nun(v.func)
    if callee == "self.set":
        params = SET_P if cls == "DateTime" else ORDER[:3]
    elif callee == "self.at":
        params = AT_P
    else:
        return None
    b = core.bind(v, params)
    return {k: nun(cfg.subst_path(p, e, set())) for k, e in b.items()}, v


def _lattice(ctx) -> None:
    for cls in ("DateTime", "Date"):
        m = pmod(core.CLASS_HOME[cls])
        fields = ORDER if cls == "DateTime" else ORDER[:3]
        units = [u for u in core.const(core.CLASS_HOME[cls], "_MODIFIERS_VALID_UNITS", cls) if u != "week"]
        for u in units:
            for side, table in (("start", MIN), ("end", MAX)):
                q = f"{cls}._{side}_of_{u}"
                if not m.has_func(q):
                    continue
                fn = m.func(q)
                if cls == "Date" and u == "day":
                    r = core.returns(fn)
                    ctx.ob("LATTICE.identity", q, len(r) == 1 and nun(r[0].value) == "self", "a Date is its own start/end of day", m.loc(fn))
                    continue
                fm = _field_map(m, cls, fn)
                if fm is None:
                    ctx.unverified("LATTICE.fields", q, "modifier is not a single self.set(...)/self.at(...) call", m.loc(fn))
                    continue
                got, call = fm
                for i, f in enumerate(fields):
                    val = got.get(f)
                    if i <= LEVEL[u]:
                        if f == "year" and u in ("decade", "century"):
                            continue   # checked by the YEAR rule
                        ok = val is None or val == f"self.{f}"
                        want = f"self.{f} (or omitted)"
                    else:
                        want = table[f]
                        if side == "end" and f == "day" and u == "month":
                            want = "self.days_in_month"
                        ok = val == want
                    ctx.ob("LATTICE.fields", f"{q}/{f}", ok,
                           f"{side}_of('{u}') sets {f}={val}; must be {want}", m.loc(call), nontrivial=i > LEVEL[u])
                if "tz" in got:
                    ctx.ob("LATTICE.fields", f"{q}/tz", False, f"tz={got['tz']}; the modifier must keep the zone", m.loc(call))


def _years(ctx) -> None:
    spec = {"decade": ("YEARS_PER_DECADE", 10, 0), "century": ("YEARS_PER_CENTURY", 100, 1)}
    forms: dict[tuple[str, str], dict[str, str]] = {}
    for cls in ("DateTime", "Date"):
        m = pmod(core.CLASS_HOME[cls])
        consts = {"YEARS_PER_DECADE": core.const("constants", "YEARS_PER_DECADE"), "YEARS_PER_CENTURY": core.const("constants", "YEARS_PER_CENTURY")}
        can = Canon(consts=consts)
        for u, (_cn, N, b) in spec.items():
            for side in ("start", "end"):
                q = f"{cls}._{side}_of_{u}"
                fm = _field_map(m, cls, m.func(q))
                if fm is None or "year" not in fm[0]:
                    ctx.unverified("YEAR.form", q, "year expression not found", m.rel)
                    continue
                e = ast.parse(fm[0]["year"], mode="eval").body
                got = can.s(e)
                base = f"self.year - (self.year - {b}) % {N}" if b else f"self.year - self.year % {N}"
                want = can.s(ast.parse(base + (f" + {N - 1}" if side == "end" else ""), mode="eval").body)
                forms.setdefault((u, side), {})[cls] = got
                if "fdiv" in got or "mod(" not in got:
                    ctx.unverified("YEAR.form", q, f"year = `{fm[0]['year']}` is not in the `y - (y-b) mod N` form", m.rel)
                    continue
                ctx.ob("YEAR.form", q, got == want,
                       f"year = `{fm[0]['year']}` (normal form `{got}`); the {u} containing y "
                       f"{'starts' if side == 'start' else 'ends'} at `{want}`", m.rel)
    for (u, side), d in forms.items():
        if len(d) == 2:
            ctx.ob("SIBLING.year", f"{side}_of_{u}", d["DateTime"] == d["Date"], f"DateTime `{d['DateTime']}` vs Date `{d['Date']}`", "src/pendulum/date.py")


def _week(ctx) -> None:
    for cls in ("DateTime", "Date"):
        m = pmod(core.CLASS_HOME[cls])
        for side, nav, var, day in (("start", "previous", "_WEEK_STARTS_AT", "start_of"), ("end", "next", "_WEEK_ENDS_AT", "end_of")):
            fn = m.func(f"{cls}._{side}_of_week")
            src = [nun(s) for s in core.body_no_doc(fn)]
            want = ["dt = self", f"if self.day_of_week != pendulum.{var}:\n    dt = self.{nav}(pendulum.{var})", f"return dt.{day}('day')"]
            ctx.ob("WEEK.pairing", f"{cls}._{side}_of_week", src == want,
                   f"body {src}; the {side} of the week is self if it already falls on {var}, else self.{nav}({var}), then {day}('day')",
                   m.loc(fn))
    hm = pmod("helpers")
    # the two setters on values: each day of the week is stored under the right name (and only there), anything else is refused with ValueError
    from ..rules import calstub, minieval
    funcs = {st.name: st for st in hm.top() if isinstance(st, ast.FunctionDef)}
    for q, var, other in (("week_starts_at", "_WEEK_STARTS_AT", "_WEEK_ENDS_AT"), ("week_ends_at", "_WEEK_ENDS_AT", "_WEEK_STARTS_AT")):
        fn = hm.func(q)
        bad = []
        try:
            for wd in list(calstub.WEEKDAYS) + [-1, 7, 8]:
                pend = minieval.Stub(_WEEK_STARTS_AT="unset", _WEEK_ENDS_AT="unset")
                glob = {**minieval.module_consts(hm), "WeekDay": calstub.WEEKDAY, "pendulum": pend, "ValueError": ValueError, "setattr": setattr, "getattr": getattr, "int": int}
                try:
                    minieval.call(fn, [wd], {}, {**funcs, "$globals": glob})
                    out = "set"
                except minieval.Raised as e:
                    out = e.exc_name
                valid = isinstance(wd, calstub.WD)
                if valid and (out != "set" or getattr(pend, var) is not wd or getattr(pend, other) != "unset"):
                    bad.append(f"{q}({wd!r}): {out}; pendulum.{var}={getattr(pend, var)!r}, pendulum.{other}={getattr(pend, other)!r}")
                elif not valid and out != "ValueError":
                    bad.append(f"{q}({wd!r}): {out} (expected ValueError)")
        except (core.Unsupported, KeyError, TypeError, AttributeError, ValueError, IndexError, RecursionError) as e:
            ctx.unverified("SETTER.tabulated", q, f"outside the checker's interpreter: {type(e).__name__}: {str(e)[:160]}", hm.loc(fn))
        else:
            ctx.ob("SETTER.tabulated", q, not bad, "7 days of the week and 3 values outside: " + (f"wrong: {bad[:3]}" if bad else f"each day stored as pendulum.{var} only, the others refused with ValueError"), hm.loc(fn))
            if not bad:
                ctx.established(("WEEK.setter",), q, "SETTER.tabulated")
    for q, var in (("week_starts_at", "_WEEK_STARTS_AT"), ("week_ends_at", "_WEEK_ENDS_AT")):
        fn = hm.func(q)
        src = [nun(s) for s in core.body_no_doc(fn)]
        want = ["if wday < WeekDay.MONDAY or wday > WeekDay.SUNDAY:\n    raise ValueError('Invalid day of week')", f"pendulum.{var} = wday"]
        ctx.ob("WEEK.setter", q, src == want, f"body {src}; must validate both bounds and set pendulum.{var}", hm.loc(fn))
    im = pmod("__init__")
    ctx.ob("WEEK.defaults", "pendulum._WEEK_STARTS_AT/_WEEK_ENDS_AT", nun(im.assign("_WEEK_STARTS_AT")) == "WeekDay.MONDAY"
           and nun(im.assign("_WEEK_ENDS_AT")) == "WeekDay.SUNDAY", "default week runs Monday..Sunday", im.rel)


SMALL = {"second", "minute", "hour"}


def _fold_tabulate(ctx, m, q: str) -> bool | None | str:
    """start_of()/end_of() dispatchers decided on abstract boundary scenarios: the body is run by the checker's interpreter
    on stub values.  A helper `_start_of_<unit>` called on a receiver with fold f yields, for the boundary wall time W:
    normal -> (W, offset O); skipped -> W+gap for f=1 (forward), W-gap for f=0 (backward); repeated -> W with the first
    (f=0) or second (f=1) offset.  Expected whatever fold the instance carries: start_of resolves a skipped start forward and
    end_of a skipped end backward; for day-and-above units a repeated start is its first, a repeated end its last occurrence;
    for hour/minute/second the instance's own occurrence is kept."""
    from types import SimpleNamespace as NS
    from ..rules import minieval
    fn = m.func(f"DateTime.{q}")
    start = q == "start_of"
    try:
        units = list(core.fold(m.assign("_MODIFIERS_VALID_UNITS", "DateTime"), m, "DateTime"))
    except Exception:       # noqa: BLE001
        return None
    # premise of the scenario model: a `_start_of_<unit>` / `_end_of_<unit>` helper computes wall-clock fields and leaves the
    # resolution to set()/create() with the fold the receiver carries - it neither reads nor chooses a fold / offset itself
    # (transitively through private helpers).  Otherwise the model below does not describe the helpers: not decided here.
    meths = m.methods("DateTime")
    ZONE_WORDS = {"fold", "utcoffset", "tz", "tzinfo", "timezone", "dst", "convert", "in_timezone", "in_tz", "astimezone"}
    seen_h: set[str] = set()
    work = [f"{'_start_of_' if start else '_end_of_'}{u}" for u in units]
    while work:
        h = work.pop()
        if h in seen_h or h not in meths:
            continue
        seen_h.add(h)
        for n_ in core.walk_fn(meths[h]):
            word = n_.attr if isinstance(n_, ast.Attribute) else n_.arg if isinstance(n_, ast.keyword) else None
            if word in ZONE_WORDS:
                ctx.unverified("FOLD.tabulated", f"DateTime.{q}",
                               f"helper DateTime.{h} handles `{word}` itself: the scenario model (helpers leave the resolution of the boundary "
                               f"to the fold of the receiver) does not describe it", m.loc(n_))
                return "nomodel"
            if isinstance(n_, ast.Attribute) and isinstance(n_.value, ast.Name) and n_.value.id == "self" and n_.attr.startswith("_") \
                    and not n_.attr.startswith("__"):
                work.append(n_.attr)
    W, O1, O2 = 1000, 100, 200

    def value(kind, wall, off, fold, ambiguous):
        def replace(fold=None, **kw):
            if kw:
                raise core.Unsupported("replace() with other fields")
            if ambiguous:
                return resolve(kind, fold)
            return value(kind, wall, off, fold, False)
        # two values of the same zone compare by their wall clock, not by fold or offset (datetime's intra-zone comparison)
        return minieval.Stub(naive=lambda: wall, utcoffset=lambda: off, fold=fold, replace=replace, _wall=wall, _off=off, _eqkey=wall)

    def resolve(kind, fold):
        if kind == "normal":
            return value(kind, W, O1, fold, False)
        if kind == "skipped":
            return value(kind, W + 1, O2, fold, False) if fold == 1 else value(kind, W - 1, O1, fold, False)
        return value(kind, W, O1 if fold == 0 else O2, fold, True)

    def receiver(kind, fold):
        ns = NS(fold=fold, _MODIFIERS_VALID_UNITS=units, _SUB_DAY_UNITS=("second", "minute", "hour"))
        ns.replace = lambda fold=None, **kw: receiver(kind, fold)
        for u in units:
            setattr(ns, f"_start_of_{u}", lambda k=kind, f_=fold: resolve(k, f_))
            setattr(ns, f"_end_of_{u}", lambda k=kind, f_=fold: resolve(k, f_))
        return ns
    bad, n = [], 0
    try:
        for unit in units:
            small = unit in SMALL
            for kind in ("normal", "skipped", "repeated"):
                for fold in (0, 1):
                    got = minieval.call(fn, [receiver(kind, fold), unit], {}, {"$globals": {"ValueError": ValueError}})
                    n += 1
                    if kind == "normal":
                        want = (W, O1)
                    elif kind == "skipped":
                        want = (W + 1, O2) if start else (W - 1, O1)
                    elif small:
                        want = (W, O1 if fold == 0 else O2)
                    else:
                        want = (W, O1) if start else (W, O2)
                    if (getattr(got, "_wall", None), getattr(got, "_off", None)) != want:
                        bad.append(f"{unit}, {kind} boundary, instance fold={fold}: wall {getattr(got, '_wall', None) - W:+d}, offset "
                                   f"{'first' if getattr(got, '_off', None) == O1 else 'second'} (expected wall {want[0] - W:+d}, {'first' if want[1] == O1 else 'second'})")
    except (core.Unsupported, TypeError, AttributeError, KeyError, IndexError, ValueError) as e:
        ctx.unverified("FOLD.tabulated", f"DateTime.{q}", f"outside the checker's interpreter: {type(e).__name__}: {e}", m.loc(fn))
        return None
    ctx.ob("FOLD.tabulated", f"DateTime.{q}", not bad,
           f"{n} (unit, boundary kind, instance fold) scenarios evaluated: " + (f"wrong: {bad[:3]}" if bad else
           f"a skipped boundary is resolved {'forward' if start else 'backward'}, a repeated one to its {'first' if start else 'last'} occurrence "
           f"(own occurrence for hour/minute/second), whatever fold the value carries"), m.loc(fn))
    return not bad


def _fold_flow(ctx) -> None:
    m = pmod("datetime")
    tabs = {q: _fold_tabulate(ctx, m, q) for q in ("start_of", "end_of")}
    if "nomodel" in tabs.values():
        return          # the syntactic rules below rest on the same premise about the helpers
    if all(tabs.values()):
        # both dispatchers are right on every scenario: their shape is not a property
        setf = m.func("DateTime.set")
        fwd = any(nun(core.kw(c).get("fold")) == "self.fold" for c in core.calls(setf) if nun(c.func).endswith("create"))
        ctx.ob("FOLD.forward", "DateTime.set/fold", fwd, "set() must forward fold=self.fold to create() (second/minute/hour rely on it)", m.loc(setf))
        for q in ("start_of", "end_of"):
            ctx.ob("FOLD.flow", f"DateTime.{q}/day-and-above", True, "established by the scenario tabulation", m.rel, nontrivial=False)
            ctx.ob("FOLD.small-units", f"DateTime.{q}/instance-fold", True, "established by the scenario tabulation", m.rel, nontrivial=False)
        return
    # set() forwards the instance's fold (so the receiver's fold decides)
    setf = m.func("DateTime.set")
    fwd = any(nun(core.kw(c).get("fold")) == "self.fold" for c in core.calls(setf) if nun(c.func).endswith("create"))
    for q, pre, pin_recv, pin_res in (("start_of", "_start_of_", 1, 0), ("end_of", "_end_of_", 0, 1)):
        fn = m.func(f"DateTime.{q}")
        for p in cfg.paths(fn):
            ex = p.exit()
            if ex[1] != "return":
                continue
            small = None
            for t, pol in p.assumes():
                if t.startswith("unit in "):
                    try:
                        vals = set(ast.literal_eval(t[len("unit in "):]))
                    except (ValueError, SyntaxError):
                        continue
                    small = (vals, pol)
            val = cfg.subst_path(p, core.strip_casts(ex[2].value), {"self", "unit"})
            s = nun(val)
            disp = f"getattr(self, f'{pre}{{unit}}')()"
            call = f"getattr(self.replace(fold={pin_recv}), f'{pre}{{unit}}')()"
            pinned = f"{call}.replace(fold={pin_res})"
            # accepted refinement: pin the result's fold only when that changes the offset (a repeated boundary)
            cond = f"{pinned} if {pinned}.utcoffset() != {call}.utcoffset() else {call}"
            if small is not None and small[1] is True:
                units = small[0]
                # below a day the instance's fold keeps the occurrence of a repeated time, but a boundary that does not exist
                # (transitions that are not whole hours) must not be resolved by it: the value computed with the instance's
                # fold may only be returned when it names the same wall time as the one computed with the pinned fold
                sm_call = f"getattr(self.replace(fold={pin_recv}), f'{pre}{{unit}}')()"
                guarded = (f"{disp} if {disp}.naive() == {sm_call}.naive() else {sm_call}",
                           f"{sm_call} if {disp}.naive() != {sm_call}.naive() else {disp}",
                           f"{disp} if {disp}.replace(tzinfo=None) == {sm_call}.replace(tzinfo=None) else {sm_call}")
                if s == disp:
                    ctx.ob("FOLD.small-units", f"DateTime.{q}/instance-fold", False,
                           f"for units {sorted(units)} the dispatcher returns `{s}` unconditionally: a skipped {'start' if pin_recv else 'end'} "
                           f"(e.g. 02:00-02:30 in Australia/Lord_Howe) is then resolved by the fold the value happens to carry, "
                           f"{'backward into the previous' if pin_recv else 'forward into the next'} unit", m.loc(ex[2]))
                elif s in tuple(g.replace(f"fold={pin_recv}", f"fold={1 - pin_recv}") for g in guarded):
                    ctx.ob("FOLD.small-units", f"DateTime.{q}/instance-fold", False,
                           f"a skipped {'start' if pin_recv else 'end'} is resolved with fold={1 - pin_recv}, i.e. "
                           f"{'backward into the previous' if pin_recv else 'forward into the next'} unit; must be fold={pin_recv}", m.loc(ex[2]))
                elif s in guarded:
                    ctx.ob("FOLD.small-units", f"DateTime.{q}/instance-fold", units <= SMALL,
                           f"for units {sorted(units)}: the instance's fold is used when the boundary exists, fold={pin_recv} otherwise", m.loc(ex[2]))
                else:
                    ctx.unverified("FOLD.small-units", f"DateTime.{q}/instance-fold", f"dispatcher returns `{s[:120]}`", m.loc(ex[2]))
            else:
                covered = small[0] if small is not None else set()
                ok = s in (pinned, cond) and SMALL <= (covered | (set() if small is not None else SMALL)) and fwd
                if small is None:
                    ok = s in (pinned, cond)
                ctx.ob("FOLD.flow", f"DateTime.{q}/day-and-above", ok,
                       f"for day-and-above units the dispatcher returns `{s}`; the instance's fold must not reach create(): "
                       f"expected `{pinned}` (a skipped boundary resolved {'forward' if pin_recv else 'backward'}, a repeated one "
                       f"to its {'first' if pin_recv else 'last'} occurrence, whatever fold the value carries)", m.loc(ex[2]))
    ctx.ob("FOLD.forward", "DateTime.set/fold", fwd, "set() must forward fold=self.fold to create() (second/minute/hour rely on it)", m.loc(setf))


UNIT: dict[tuple[str, str], bool | None] = {}


def _bounds(w, unit: str, week_start: int):
    """[first, last] wall instant of the calendar unit of `w` (naive datetime), the checker's own calendar arithmetic"""
    import calendar
    import datetime as _dt
    day0 = w.replace(hour=0, minute=0, second=0, microsecond=0)
    eod = _dt.timedelta(days=1) - _dt.timedelta(microseconds=1)
    if unit == "second":
        return w.replace(microsecond=0), w.replace(microsecond=999999)
    if unit == "minute":
        return w.replace(second=0, microsecond=0), w.replace(second=59, microsecond=999999)
    if unit == "hour":
        return w.replace(minute=0, second=0, microsecond=0), w.replace(minute=59, second=59, microsecond=999999)
    if unit == "day":
        return day0, day0 + eod
    if unit == "week":
        lo = day0 - _dt.timedelta(days=(w.weekday() - week_start) % 7)
        return lo, lo + _dt.timedelta(days=6) + eod
    if unit == "month":
        return day0.replace(day=1), day0.replace(day=calendar.monthrange(w.year, w.month)[1]) + eod
    if unit == "year":
        return day0.replace(month=1, day=1), day0.replace(month=12, day=31) + eod
    if unit == "decade":
        y = w.year - w.year % 10
        return day0.replace(year=y, month=1, day=1), day0.replace(year=y + 9, month=12, day=31) + eod
    if unit == "century":
        y = (w.year - 1) - (w.year - 1) % 100 + 1
        return day0.replace(year=y, month=1, day=1), day0.replace(year=y + 99, month=12, day=31) + eod
    raise ValueError(unit)


def _unit_tabulate(ctx, cls: str) -> None:
    """UNIT.tabulated: start_of(u) / end_of(u) decided on values.  Both dispatchers and every helper they reach are run by the
    checker's interpreter in the wall-clock world of rules/wallstub.py on instances spread over leap days, month / year /
    decade / century ends and times of day, in a zone without transition and in zones whose one transition skips or repeats
    the first or the last stretch of the unit (one hour and thirty minutes), for both folds of a repeated instance, and for
    the seven week configurations.  The result must be the first / last existing instant of the calendar unit of the instance
    (the checker's own calendar arithmetic): a skipped start resolved forward, a skipped end backward, a repeated start of a day
    or larger unit its first occurrence, a repeated end its last, within an hour the occurrence of the instance; it must lie on
    the right side of the instance as instants, keep the timezone, and be reproduced when the modifier is applied again."""
    import datetime as _dt
    from ..rules import minieval, wallstub
    m = pmod(core.CLASS_HOME[cls])
    is_dt = cls == "DateTime"
    extra = pmod("date").methods("Date") if is_dt else None
    deep = ctx.tier == "thorough"
    try:
        units = list(core.fold(m.assign("_MODIFIERS_VALID_UNITS", cls), m, cls))
    except Exception as e:      # noqa: BLE001
        ctx.unverified("UNIT.tabulated", f"{cls}", f"_MODIFIERS_VALID_UNITS: {e}", m.rel)
        return
    H, M30, US1 = _dt.timedelta(hours=1), _dt.timedelta(minutes=30), _dt.timedelta(microseconds=1)
    dates = [(2024, 2, 29), (2000, 1, 1), (1999, 12, 31), (2021, 3, 14), (2030, 12, 31), (9999, 12, 15), (2001, 1, 1), (2021, 11, 7)]      # (9999-12: nothing lies after the unit)
    times = [(0, 0, 0, 0), (12, 34, 56, 789012), (23, 59, 59, 999999), (1, 45, 30, 500000)]
    if not deep:
        dates, times = dates[:6], times[:3]
    small = ("second", "minute", "hour")
    for which in ("start_of", "end_of"):
        bad, n = [], 0
        start = which == "start_of"
        try:
            for unit in units:
                for d in dates:
                    for t in (times if is_dt else times[:1]):
                        w0 = _dt.datetime(*d, *t)
                        if unit == "century" and d[0] == 9999:
                            continue        # the century 9901-10000 has no representable end
                        for ws in (range(7) if unit == "week" and d in (dates[3], dates[0], dates[4]) and t == times[0] else (0,)):      # a Sunday, a Thursday, a Tuesday x every first day of the week
                            lo, hi = _bounds(w0, unit, ws)
                            trs = [None]
                            if is_dt and (deep or d in dates[:4]) and d[0] < 9999:
                                trs += [("skip", lo, H), ("skip", lo, M30), ("repeat", lo + H, H), ("repeat", lo + M30, M30),
                                        ("skip", hi + US1 - M30, M30), ("skip", hi + US1 - H, H), ("repeat", hi + US1, H), ("repeat", hi + US1, M30)]
                            for tr in trs:
                                wld = wallstub.World(m, cls, transition=tr, week=(ws, (ws + 6) % 7), extra=extra)
                                if not is_dt:
                                    insts = [wld.date(w0.date())]
                                elif wld.skipped(w0):
                                    continue            # the instance itself would not exist
                                else:
                                    insts = [wld.datetime(w0, f) for f in (0, 1)]     # an unambiguous value may carry either fold (0 after arithmetic)
                                for x in insts:
                                    n += 1
                                    label = f"{which}({unit!r}) of {w0.isoformat(' ') if is_dt else w0.date()}" + (f" fold={vars(x)['fold']}" if is_dt else "") \
                                        + (f" [{tr[0]} {tr[1].isoformat(' ')} +{tr[2]}]" if tr else "") + (f" [week starts on {ws}]" if ws else "")
                                    try:
                                        got = wld.call(x, which, [unit])
                                    except (minieval.Raised, ValueError) as e:
                                        bad.append(f"{label}: raises {getattr(e, 'exc_name', type(e).__name__)} ({str(e)[:60]})")
                                        continue
                                    g = vars(got) if isinstance(got, minieval.Obj) else {}
                                    if not is_dt:
                                        want_d = (lo if start else hi).date()
                                        if g.get("_date") != want_d:
                                            bad.append(f"{label}: {g.get('_date')} (expected {want_d})")
                                        continue
                                    want = wld.resolve(lo, 1) if start else wld.resolve(hi, 0)
                                    if g.get("_wall") != want:
                                        bad.append(f"{label}: {g.get('_wall')} (expected {want.isoformat(' ')})")
                                        continue
                                    if wld.ambiguous(want):
                                        if unit in small:
                                            wf = vars(x)["fold"] if wld.ambiguous(w0) else None
                                        else:
                                            wf = 0 if start else 1
                                        if wf is not None and g.get("fold") != wf:
                                            bad.append(f"{label}: the {'second' if g.get('fold') else 'first'} occurrence of the repeated {want.time()} (expected the "
                                                       f"{'second' if wf else 'first'})")
                                            continue
                                    ix, ig = wld.instant(x), wld.instant(got)
                                    if (ig > ix) if start else (ig < ix):
                                        bad.append(f"{label}: the result is {'after' if start else 'before'} the instance as an instant")
                                        continue
                                    if g.get("tz") is not wld.tz:
                                        bad.append(f"{label}: the timezone is not kept")
                                        continue
                                    again = wld.call(got, which, [unit])
                                    a = vars(again) if isinstance(again, minieval.Obj) else {}
                                    if a.get("_wall") != want or (wld.ambiguous(want) and a.get("fold") != g.get("fold")):
                                        bad.append(f"{label}: applied again it gives {a.get('_wall')} fold={a.get('fold')} (not idempotent)")
        except wallstub.ERRORS as e:
            UNIT[(cls, which)] = None
            ctx.unverified("UNIT.tabulated", f"{cls}.{which}", f"outside the checker's interpreter: {type(e).__name__}: {e}", m.loc(m.func(f"{cls}.{which}")))
            continue
        UNIT[(cls, which)] = not bad
        ctx.ob("UNIT.tabulated", f"{cls}.{which}", not bad,
               f"{n} (unit, instance, zone transition, week configuration) cases: " + (f"wrong: {bad[:3]}" if bad else
               f"always the {'first' if start else 'last'} existing instant of the unit"), m.loc(m.func(f"{cls}.{which}")))
        ctx.count(f"unit_cases_{cls}_{which}", n)


def run(ctx) -> None:
    ctx.explanation = EXPLANATION
    UNIT.clear()
    ctx.step(_unit_tabulate, ctx, "DateTime")
    ctx.step(_unit_tabulate, ctx, "Date")
    for cls_ in ("DateTime", "Date"):
        if UNIT.get((cls_, "start_of")) and UNIT.get((cls_, "end_of")):
            # how the modifiers of this class are written (field lists, year formulas, week pairing, fold flow) is then not a property
            ctx.established(("LATTICE", "YEAR.form", "SIBLING.year", "WEEK.pairing", "FOLD.tabulated", "FOLD.flow", "FOLD.small-units", "FOLD.forward", "DISPATCH.name",
                             "DISPATCH.listed"), f"{cls_}.", "UNIT.tabulated")
    ctx.step(_dispatch, ctx)
    ctx.step(_lattice, ctx)
    ctx.step(_years, ctx)
    ctx.step(_week, ctx)
    ctx.step(_fold_flow, ctx)
    ctx.expect_min("DISPATCH.exhaustive", 30)
    ctx.expect_min("LATTICE.fields", 100)
    ctx.expect_min("YEAR.form", 8)
    ctx.expect_min("WEEK", 7)
    ctx.expect_min("FOLD", 5)
