"""A closed world for evaluating pendulum's Formatter (formatting/formatter.py) and Locale (locales/locale.py) with the checker's
interpreter: the class-level tables of Formatter (token regexes, rendering and parsing lambdas) are evaluated from the class body,
a locale is the literal of locales/<name>/locale.py (+ custom.py) evaluated by the interpreter - its plural / ordinal lambdas
become callables of the interpreter -, regular expressions are matched by the standard library's `re`.  The DateTime values
handed to format() and created by parse() (pendulum.datetime, now) are values of the wall-clock world (rules/wallstub.py) in a
fixed-offset zone.  Nothing of pendulum is imported or run."""
from __future__ import annotations

import ast
import datetime as _dt
import re
from typing import Any

from .. import core
from . import minieval, wallstub
from .minieval import ClassStub, Obj, Stub

RE = Stub(compile=re.compile, match=re.match, sub=re.sub, escape=re.escape, search=re.search, fullmatch=re.fullmatch, findall=re.findall,
          IGNORECASE=re.IGNORECASE, I=re.I, Pattern=re.Pattern)


def class_env(m: core.Mod, cls: str, glob: dict) -> dict[str, Any]:
    """the class-level names of `cls`, evaluated in order by the interpreter"""
    env: dict[str, Any] = {}
    for st in m.cls(cls).body:
        tgt = st.targets[0] if isinstance(st, ast.Assign) and len(st.targets) == 1 else st.target if isinstance(st, ast.AnnAssign) else None
        if isinstance(tgt, ast.Name) and getattr(st, "value", None) is not None:
            env[tgt.id] = minieval.ev(st.value, env, glob)
    return env


_ZONES: list[frozenset[str]] = []


def _zone_names() -> frozenset[str]:
    """what pendulum.timezones() stands for: the names of the tz database (standard library)"""
    if not _ZONES:
        import zoneinfo
        _ZONES.append(frozenset(zoneinfo.available_timezones()))
    return _ZONES[0]


_LOCALE_DATA: dict[tuple[str, str], Any] = {}


def locale_data(name: str) -> Any:
    key = (str(core.REPO), name)
    if key not in _LOCALE_DATA:
        env: dict[str, Any] = {}
        g = {"$globals": {}}
        try:
            cm = core.mod(f"src/pendulum/locales/{name}/custom.py")
            for st in cm.tree.body:
                if isinstance(st, ast.Assign) and isinstance(st.targets[0], ast.Name):
                    env[st.targets[0].id] = minieval.ev(st.value, env, g)
        except core.AnchorMissing:
            pass
        lm = core.mod(f"src/pendulum/locales/{name}/locale.py")
        for st in lm.tree.body:
            if isinstance(st, ast.ImportFrom):
                for a in st.names:
                    if a.asname and a.name in env:
                        env[a.asname] = env[a.name]
            elif isinstance(st, ast.Assign) and isinstance(st.targets[0], ast.Name):
                env[st.targets[0].id] = minieval.ev(st.value, env, g)
        _LOCALE_DATA[key] = env["locale"]
    return _LOCALE_DATA[key]


class World:
    def __init__(self, offset: _dt.timedelta = _dt.timedelta(0)):
        self.fm, self.lm = core.pmod("formatting.formatter"), core.pmod("locales.locale")
        self.offset = offset
        dm = core.pmod("datetime")
        self.dtw = wallstub.World(dm, "DateTime", extra=core.pmod("date").methods("Date"), base_offset=offset)
        self.lmeths = self.lm.methods("Locale")
        self.locales: dict[str, Obj] = {}
        hm = core.pmod("_helpers")
        hfuncs = {st.name: st for st in hm.top() if isinstance(st, ast.FunctionDef)}
        import math
        hglob = {**hfuncs, "$globals": {**minieval.module_consts(hm), "math": Stub(floor=math.floor)}}
        self.created: list[Any] = []
        pend = Stub(get_locale=lambda: "en", timezones=_zone_names, timezone=lambda x: Stub(_zone=x, name=str(x)), _safe_timezone=lambda x: Stub(_zone=x, name=str(x)),
                    datetime=self._datetime, parse=self._parse_ordinal, from_timestamp=lambda t_: (_ for _ in ()).throw(core.Unsupported("from_timestamp")),
                    DateTime=self.dtw.ctor)
        self.glob: dict[str, Any] = {st.name: st for st in self.fm.top() if isinstance(st, ast.FunctionDef)}
        if "local_time" in hfuncs:
            self.glob["local_time"] = (hfuncs["local_time"], hglob)
        self.glob["$globals"] = {**minieval.module_consts(self.fm), "re": RE, "pendulum": pend, "datetime": Stub(timedelta=_dt.timedelta, datetime=_dt.datetime),
                                 "Locale": ClassStub(_new=None, _isa=lambda v: isinstance(v, Obj) and "_data" in vars(v), load=self.load_locale),
                                 "Timezone": ClassStub(_new=None, _isa=lambda v: isinstance(v, Stub) and hasattr(v, "_zone")), "typing": None, "WeekDay": wallstub.WEEKDAY}
        fenv = class_env(self.fm, "Formatter", self.glob)
        self.fmeths = self.fm.methods("Formatter")
        self.formatter = Obj(_methods=self.fmeths, _props=set(), _ctor=None, _natives={}, **fenv)

    def load_locale(self, x):
        if isinstance(x, Obj):
            return x
        if x not in self.locales:
            self.locales[x] = Obj(_methods=self.lmeths, _props=set(), _ctor=None, _natives={}, _locale=x, _data=locale_data(x), _key_cache={})
        return self.locales[x]

    def _datetime(self, year, month, day, hour=0, minute=0, second=0, microsecond=0, tz=None, fold=1, **k):
        return self.value(_dt.datetime(year, month, day, hour, minute, second, microsecond))

    def _parse_ordinal(self, text):
        """pendulum.parse() of the 'year-number' string _check_parsed builds for a day of the year: three digits are an ordinal day (ISO 8601),
        two digits a month, anything else is refused - what parse() does with these strings in both back ends (C07)"""
        mo = re.fullmatch(r"(\d{1,4})-(\d+)", text)
        if mo and len(mo.group(2)) == 3:
            y, n = int(mo.group(1)), int(mo.group(2))
            if 1 <= n <= (366 if (y % 4 == 0 and (y % 100 != 0 or y % 400 == 0)) else 365):
                d = _dt.date(y, 1, 1) + _dt.timedelta(days=n - 1)
                return self.value(_dt.datetime(d.year, d.month, d.day))
        elif mo and len(mo.group(2)) == 2 and 1 <= int(mo.group(2)) <= 12:
            return self.value(_dt.datetime(int(mo.group(1)), int(mo.group(2)), 1))
        raise minieval.Raised(f"raise reached: ParserError: Unable to parse string [{text}]", "ParserError")

    def value(self, w: _dt.datetime) -> Obj:
        """a DateTime of the wall-clock world with the accessors the formatter reads"""
        v = self.dtw.datetime(w, 0)
        d = vars(v)
        off = self.offset
        sign = "-" if off < _dt.timedelta(0) else "+"
        mins = abs(off) // _dt.timedelta(minutes=1)
        name = f"{sign}{mins // 60:02d}:{mins % 60:02d}"
        iso = w.isocalendar()
        d.update(_funcs=self.dtw.glob, day_of_year=w.timetuple().tm_yday, week_of_year=iso[1], isocalendar=w.isocalendar, int_timestamp=(w - off - _dt.datetime(1970, 1, 1)) // _dt.timedelta(seconds=1),
                 timezone_name=name, tzname=lambda: name, utcoffset=lambda: off, timestamp=lambda: (w - off - _dt.datetime(1970, 1, 1)).total_seconds())
        return v

    def format(self, w: _dt.datetime, fmt: str, locale: str = "en") -> str:
        return minieval.call(self.fmeths["format"], [self.formatter, self.value(w), fmt, locale], {}, self.glob)

    def parse(self, text: str, fmt: str, now: _dt.datetime, locale: str = "en") -> dict[str, Any]:
        return minieval.call(self.fmeths["parse"], [self.formatter, text, fmt, self.value(now), locale], {}, self.glob)


ERRORS = (core.Unsupported, KeyError, TypeError, AttributeError, IndexError, RecursionError, ZeroDivisionError, re.error)
