"""A small concrete evaluator for statement lists taken from the analysed source (the checker's own interpreter over
`ast`: nothing of pendulum is imported or called).  It is used to *tabulate* closed pieces of string / integer logic -
an offset string parser, a digit formula - over a finite set of inputs, so that a rule can be stated on the values the
piece computes instead of on the shape it is written in.

Supported: assignments (also tuple unpacking, augmented), if/elif/else, return, pass, expression statements; integer /
string / bool / None / tuple / list values; arithmetic, comparisons, boolean operators, conditional expressions, f-strings,
slicing and indexing, `in`; the builtins int, str, len, bool, abs, divmod, min, max, round, float; the str methods startswith,
endswith, split, replace, zfill, ljust, rjust, strip, lstrip, rstrip, upper, lower, find, count, isdigit.  Anything else raises Unsupported."""
from __future__ import annotations

import ast
import datetime as _dt
import types
from typing import Any

from ..core import Unsupported, un


# values the interpreter may look into / call: stubs built by the checker and plain standard-library values
import re as _re

_OPEN = (types.SimpleNamespace, _dt.timedelta, _dt.datetime, _dt.date, _dt.time, _dt.tzinfo, dict, _re.Pattern, _re.Match)


_STD_CLASSES = (_dt.timezone, _dt.datetime, _dt.date, _dt.time, _dt.timedelta)     # standard-library classes whose attributes / constructors may be used


import datetime as _datetime
import functools as _functools
import operator as _operator

_CALLABLE_VALUES = (types.FunctionType, types.MethodType, types.BuiltinFunctionType, _operator.methodcaller, _operator.attrgetter, _operator.itemgetter, _functools.partial)


class Stub(types.SimpleNamespace):
    """a stub value built by a checker; when it carries `_eqkey` it compares like the thing it stands for (e.g. two aware
    datetimes with the same tzinfo compare by their wall clock fields, whatever their fold)"""

    def __eq__(self, other):
        if isinstance(other, Stub) and hasattr(self, "_eqkey") and hasattr(other, "_eqkey"):
            return self._eqkey == other._eqkey
        return self is other

    def __ne__(self, other):
        return not self.__eq__(other)

    def __lt__(self, other):
        return self._eqkey < other._eqkey

    def __le__(self, other):
        return self._eqkey <= other._eqkey

    def __gt__(self, other):
        return self._eqkey > other._eqkey

    def __ge__(self, other):
        return self._eqkey >= other._eqkey

    def __bool__(self):
        """an object is true unless its class says otherwise: a stub standing for a value of a class that defines truth (timedelta and the
        classes derived from it, numbers, containers) must say which (`_truth`, or its `_native` value) - never a silent True"""
        d = vars(self)
        if "_truth" in d:
            t = d["_truth"]
            return bool(t() if callable(t) else t)
        falsy = (_datetime.timedelta, int, float, str, tuple, list, dict, set, frozenset)
        if any(isinstance(t, type) and issubclass(t, falsy) for t in d.get("_types", ())):
            if isinstance(d.get("_native"), falsy):
                return bool(d["_native"])
            raise Unsupported("truth value of a stub standing for a value whose class defines truth")
        return True

    __hash__ = object.__hash__

    # arithmetic on a stub: what the world says (`_neg`, `_mul`, `_add`, `_sub`, `_rsub`, `_abs`: callables), else the operation is unknown
    def _arith(self, slot, *a):
        f = vars(self).get(slot)
        if f is None:
            raise TypeError(f"the stub does not model `{slot.strip('_')}`")
        return f(*a)

    def __neg__(self):
        return self._arith("_neg")

    def __abs__(self):
        return self._arith("_abs")

    def __mul__(self, k):
        return self._arith("_mul", k)

    def __rmul__(self, k):
        return self._arith("_mul", k)

    def __add__(self, o):
        return self._arith("_add", o)

    def __radd__(self, o):
        return self._arith("_add", o)

    def __sub__(self, o):
        return self._arith("_sub", o)

    def __rsub__(self, o):
        return self._arith("_rsub", o)


class Obj(Stub):
    """an instance stub whose class part is analysed source: `_methods` maps the names defined in the class body to their
    FunctionDef (`_props`: the ones decorated as properties), evaluated by this interpreter on attribute access;
    `_natives` gives plain values / callables for what the C base class provides; `_ctor` stands for `self.__class__`;
    `_funcs` (optional): the globals of the module that defines the class - its methods run in them whoever calls"""


class ClassStub(Stub):
    """stands for a class of the analysed program or of the standard library: calling it runs `_new`, `isinstance(v, it)`
    asks `_isa`"""

    def __call__(self, *a, **k):
        return vars(self)["_new"](*a, **k)


def _isinstance(v, c) -> bool:
    if isinstance(c, tuple):
        return any(_isinstance(v, x) for x in c)
    if isinstance(c, ClassStub):
        return bool(vars(c)["_isa"](v))
    if isinstance(c, type):
        if c is int and isinstance(v, bool):
            return True
        if isinstance(v, Stub):
            return any(issubclass(t, c) for t in vars(v).get("_types", ()))       # a stub standing for an instance of the listed classes
        return isinstance(v, c)
    raise Unsupported("isinstance against an unknown class")


class SuperProxy(Stub):
    """what zero-argument `super()` yields inside a method of an instance stub: the methods of the parent class (`_super` of the stub:
    (methods, funcs of the parent's module)) bound to the same instance"""


def _attr(v, name, funcs, depth):
    if isinstance(v, SuperProxy):
        nat = vars(vars(v)["_obj"]).get("_super_natives", {})
        if name in nat:
            return nat[name]                  # the parent is a class of the standard library: the world says what it answers
        meths, pfuncs = vars(vars(v)["_obj"]).get("_super", ({}, None))
        if name not in meths:
            raise Unsupported(f"super().{name}: not a method of the parent class in the analysed source")
        fn = meths[name]
        return lambda *a, **k: call(fn, [vars(v)["_obj"], *a], k, pfuncs or funcs, depth + 1)
    if isinstance(v, Obj):
        d = vars(v)
        if name == "__class__":
            return d["_ctor"]
        if name in d:
            return d[name]
        if name in d.get("_methods", {}):
            fn = d["_methods"][name]
            funcs = d.get("_funcs") or funcs              # the globals of the module the class is defined in, when the world gives them
            if depth > 8:
                raise Unsupported("call depth")
            decos = {un(x) for x in fn.decorator_list}
            if "staticmethod" in decos:
                return lambda *a, **k: call(fn, list(a), k, funcs, depth + 1)
            if name in d.get("_props", ()):
                return call(fn, [v], {}, funcs, depth + 1)
            return lambda *a, **k: call(fn, [v, *a], k, funcs, depth + 1)
        if name in d.get("_natives", {}):
            return d["_natives"][name]
        sup = d.get("_super")
        if sup and name in sup[0]:
            # not defined in the class itself: the parent class's method (the analysed source of the parent, with its module's globals)
            fn = sup[0][name]
            pfuncs = sup[1] or funcs
            if depth > 8:
                raise Unsupported("call depth")
            decos = {un(x) for x in fn.decorator_list}
            if "staticmethod" in decos:
                return lambda *a, **k: call(fn, list(a), k, pfuncs, depth + 1)
            if "property" in decos or "cached_property" in decos:
                return call(fn, [v], {}, pfuncs, depth + 1)
            return lambda *a, **k: call(fn, [v, *a], k, pfuncs, depth + 1)
        raise Unsupported(f"attribute `{name}` of the instance stub")
    if isinstance(v, ClassStub) and name not in vars(v):
        # a method of the analysed class reached through the class (`self.__class__._helper(...)`, `cls._helper(...)`, `Class.method(obj)`)
        d = vars(v)
        meths = d.get("_methods") or {}
        if callable(meths):
            meths = meths()
        if name in meths:
            fn = meths[name]
            cfuncs = d.get("_funcs") or funcs
            if depth > 8:
                raise Unsupported("call depth")
            decos = {un(x) for x in fn.decorator_list}
            if "classmethod" in decos:
                return lambda *a, **k: call(fn, [v, *a], k, cfuncs, depth + 1)
            if decos - {"staticmethod"}:
                raise Unsupported(f"`{name}` reached through the class is decorated with {sorted(decos)}")
            return lambda *a, **k: call(fn, list(a), k, cfuncs, depth + 1)        # static method / plain function taken from the class
        raise Unsupported(f"attribute `{name}` of the class stub")
    if isinstance(v, types.SimpleNamespace) and name in vars(v):
        return vars(v)[name]
    return getattr(v, name)


def _starred(elts, env, funcs, depth):
    out = []
    for x in elts:
        if isinstance(x, ast.Starred):
            out.extend(list(ev(x.value, env, funcs, depth)))
        else:
            out.append(ev(x, env, funcs, depth))
    return out


# base classes of the exception names that matter for `except` clauses (builtins, and pendulum's ParserError(ValueError))
_EXC_BASES = {"ParserError": ("ValueError",), "OverflowError": ("ArithmeticError",), "ZeroDivisionError": ("ArithmeticError",), "KeyError": ("LookupError",),
              "IndexError": ("LookupError",), "NonExistingTime": ("PendulumException",), "AmbiguousTime": ("PendulumException",), "InvalidTimezone": ("ValueError",)}


_MISSING = object()


def _handler_names(t: ast.AST, env, funcs, depth) -> list[str]:
    """the exception classes an `except` clause (or contextlib.suppress) lists, by name; a local variable or a subscript holding the class is
    evaluated"""
    out = []
    for x in (t.elts if isinstance(t, ast.Tuple) else [t]):
        if isinstance(x, ast.Name) and x.id in env or not isinstance(x, (ast.Name, ast.Attribute)):
            v = ev(x, env, funcs, depth)
            for c in (v if isinstance(v, tuple) else (v,)):
                nm = getattr(c, "__name__", None) or getattr(c, "_exc_name", None)
                if not isinstance(nm, str):
                    raise Unsupported(f"`except {un(x)[:30]}`: not an exception class the interpreter knows")
                out.append(nm)
        else:
            out.append(un(x))
    return out


def _exc_matches(raised: str, names: list[str]) -> bool:
    import builtins
    if raised in names or "Exception" in names or "BaseException" in names:
        return True
    seen, todo = set(), [raised]
    while todo:
        k = todo.pop()
        if k in seen:
            continue
        seen.add(k)
        if k in names:
            return True
        todo.extend(_EXC_BASES.get(k, ()))
        b = getattr(builtins, k, None)
        if isinstance(b, type) and issubclass(b, BaseException):
            todo.extend(c.__name__ for c in b.__mro__[1:] if c not in (object, BaseException, Exception))
    return False


class Raised(ValueError):
    """a `raise` statement of the analysed code was reached; `exc_name` is the class it names"""

    def __init__(self, msg, exc_name=""):
        super().__init__(msg)
        self.exc_name = exc_name


class _Return(Exception):
    def __init__(self, value):
        self.value = value


class _Break(Exception):
    pass


class _Continue(Exception):
    pass


MAX_ITER = 400


_BUILTINS = {"range": range, "int": int, "str": str, "len": len, "bool": bool, "abs": abs, "divmod": divmod, "min": min, "max": max, "round": round,
             "float": float, "any": any, "all": all, "sum": sum, "sorted": sorted, "tuple": tuple, "list": list, "enumerate": lambda *a, **k: list(enumerate(*a, **k)),
             "callable": callable, "zip": lambda *a: list(zip(*a)), "reversed": lambda x: list(reversed(x)), "set": set, "frozenset": frozenset, "repr": repr, "pow": pow, "chr": chr, "ord": ord,
             "next": lambda it, *d: _next(it, *d), "iter": lambda x: list(x), "dict": dict, "isinstance_": None, "type_": None, "map": map, "filter": filter}
_BUILTINS = {k: v for k, v in _BUILTINS.items() if v is not None}


def _walrus_out(comp: ast.AST, inner: dict, outer: dict) -> None:
    """an assignment expression inside a comprehension binds its target in the enclosing scope"""
    names = getattr(comp, "_pvs_walrus", None)
    if names is None:
        names = comp._pvs_walrus = tuple(sorted({x.target.id for x in ast.walk(comp) if isinstance(x, ast.NamedExpr)}))      # type: ignore[attr-defined]
    for nm in names:
        if nm in inner:
            outer[nm] = inner[nm]


def _std_call(f, args, kws):
    try:
        return f(*args, **kws)
    except (ValueError, OverflowError, ZeroDivisionError) as e:
        if isinstance(e, Raised):
            raise           # a stub of the world reporting what the code it stands for raises
        raise Raised(f"raise reached: {type(e).__name__}: {e}", type(e).__name__) from None


def _next(it, *default):
    """next() of an iterator: iter() of a container is a list consumed from the front; generator expressions, map / filter and the
    values of a generator function are iterators"""
    if isinstance(it, list):
        if it:
            return it.pop(0)            # consumed, like the iterator it stands for
        if default:
            return default[0]
        raise Raised("raise reached: StopIteration", "StopIteration")
    if hasattr(it, "__next__"):
        try:
            return next(it)
        except StopIteration:
            if default:
                return default[0]
            raise Raised("raise reached: StopIteration", "StopIteration") from None
    raise Unsupported("next() of a value that is not an iterator")


def _count(start=0, step=1):
    for i in range(MAX_ITER):
        yield start + i * step
    raise Unsupported("an unbounded iterator is consumed beyond the iteration bound")


def _repeat(obj, times=None):
    for _ in range(MAX_ITER if times is None else times):
        yield obj
    if times is None:
        raise Unsupported("an unbounded iterator is consumed beyond the iteration bound")


def _cycle(it):
    items = list(it)
    if not items:
        return
    for i in range(MAX_ITER):
        yield items[i % len(items)]
    raise Unsupported("an unbounded iterator is consumed beyond the iteration bound")


import bisect as _bisect
import itertools as _itertools
import math as _math


def _public(mod, skip=()):
    return {k: v for k, v in vars(mod).items() if not k.startswith("_") and callable(v) and k not in skip}


_STD_VOCABULARY = {
    "functools": {"partial": _functools.partial, "reduce": _functools.reduce, "wraps": _functools.wraps, "lru_cache": _functools.lru_cache, "cache": _functools.lru_cache(maxsize=None)},
    "operator": _public(_operator),
    "itertools": {**_public(_itertools, ("count", "repeat", "cycle", "tee")), "count": _count, "repeat": _repeat, "cycle": _cycle},
    "bisect": _public(_bisect),
    "math": {**_public(_math), "pi": _math.pi, "inf": _math.inf},
    "datetime": {"datetime": _dt.datetime, "date": _dt.date, "time": _dt.time, "timedelta": _dt.timedelta, "timezone": _dt.timezone, "tzinfo": _dt.tzinfo,
                 "MINYEAR": _dt.MINYEAR, "MAXYEAR": _dt.MAXYEAR},
    "calendar": {k_: getattr(__import__("calendar"), k_) for k_ in ("monthrange", "isleap", "leapdays", "weekday", "monthcalendar", "mdays", "timegm",
                                                                  "MONDAY", "TUESDAY", "WEDNESDAY", "THURSDAY", "FRIDAY", "SATURDAY", "SUNDAY")},
}


def std_module(name: str) -> "Stub":
    """the interpreter's stand-in for a module of the pure part of the standard library, for a world's globals"""
    return Stub(**_STD_VOCABULARY[name])


def _module_root(node: ast.AST):
    root = node
    for _ in range(400):
        p = getattr(root, "_parent", None)
        if p is None:
            break
        root = p
    return root if isinstance(root, ast.Module) else None


def _module_level(node: ast.AST, name: str, funcs, depth):
    """the module-level definition of `name` in the module `node` belongs to, for a name the world does not define: a function of
    the module (interpreted when called) or a table / constant / functor the module builds at import time (evaluated in the world's
    globals, once)"""
    root = _module_root(node)
    if root is None:
        return _MISSING
    top = getattr(root, "_pvs_top", None)
    if top is None:
        top = {}
        for st in root.body:
            if isinstance(st, ast.FunctionDef):
                top[st.name] = st
            elif isinstance(st, ast.ClassDef) and any((un(b).split(".")[-1]) == "NamedTuple" for b in st.bases):
                top[st.name] = st
            elif isinstance(st, (ast.Assign, ast.AnnAssign)) and getattr(st, "value", None) is not None:
                tg = st.targets[0] if isinstance(st, ast.Assign) and len(st.targets) == 1 else getattr(st, "target", None)
                if isinstance(tg, ast.Name):
                    top[tg.id] = st.value
        root._pvs_top = top         # type: ignore[attr-defined]
    d = top.get(name)
    if d is None:
        return _MISSING
    if isinstance(d, ast.FunctionDef):
        return lambda *a, **k: call(d, list(a), k, funcs, depth + 1)
    if isinstance(d, ast.ClassDef):
        cache = getattr(root, "_pvs_namedtuples", None)
        if cache is None:
            cache = root._pvs_namedtuples = {}      # type: ignore[attr-defined]
        if name not in cache:
            cache[name] = _namedtuple_class(d, funcs, depth)
        return cache[name]
    g = funcs.get("$globals") if funcs else None
    busy = getattr(root, "_pvs_busy", None)
    if busy is None:
        busy = root._pvs_busy = set()       # type: ignore[attr-defined]
    if name in busy or depth > 12:
        return _MISSING
    busy.add(name)
    try:
        v = ev(d, {}, funcs, depth + 1)
    finally:
        busy.discard(name)
    if isinstance(g, dict):
        g[name] = v
    return v


def _namedtuple_class(cdef: ast.ClassDef, funcs, depth):
    """a `class X(NamedTuple)` of the analysed module as a real named tuple class: the fields (with their constant defaults) and the
    methods of its body (interpreted when called) - a small record type a refactoring introduces for a helper's result"""
    import collections
    fields, defaults = [], []
    for st in cdef.body:
        if isinstance(st, ast.AnnAssign) and isinstance(st.target, ast.Name):
            fields.append(st.target.id)
            if st.value is not None:
                defaults.append(ev(st.value, {}, funcs, depth + 1))
            elif defaults:
                raise Unsupported(f"NamedTuple {cdef.name}: a field without default after one with")
    base = collections.namedtuple(cdef.name, fields, defaults=defaults or None)      # noqa: PYI024
    ns: dict[str, Any] = {"__slots__": ()}
    for st in cdef.body:
        if isinstance(st, ast.FunctionDef):
            decos = {un(x) for x in st.decorator_list}
            if "classmethod" in decos:
                ns[st.name] = classmethod(lambda cls, *a, _f=st, **k: call(_f, [cls, *a], k, funcs, depth + 1))
            elif "staticmethod" in decos:
                ns[st.name] = staticmethod(lambda *a, _f=st, **k: call(_f, list(a), k, funcs, depth + 1))
            elif "property" in decos:
                ns[st.name] = property(lambda self, _f=st: call(_f, [self], {}, funcs, depth + 1))
            elif not decos:
                ns[st.name] = (lambda _f: lambda self, *a, **k: call(_f, [self, *a], k, funcs, depth + 1))(st)
            else:
                raise Unsupported(f"NamedTuple {cdef.name}.{st.name}: decorated with {sorted(decos)}")
    return type(cdef.name, (base,), ns)


def _is_record(v) -> bool:
    return isinstance(v, tuple) and hasattr(type(v), "_fields")


def _std_import(node: ast.AST, name: str):
    """what `name` is bound to by an import of the analysed module from the pure, deterministic part of the standard library
    (functools.partial / reduce, operator, itertools, bisect, math) - consulted only for a name the world does not define"""
    root = node
    for _ in range(200):
        p = getattr(root, "_parent", None)
        if p is None:
            break
        root = p
    if not isinstance(root, ast.Module):
        return _MISSING
    table = getattr(root, "_pvs_std_imports", None)
    if table is None:
        table = {}
        for st in ast.walk(root):
            if isinstance(st, ast.Import):
                for a in st.names:
                    if a.name in _STD_VOCABULARY:
                        table[a.asname or a.name] = Stub(**_STD_VOCABULARY[a.name])
            elif isinstance(st, ast.ImportFrom) and st.level == 0 and st.module in _STD_VOCABULARY:
                for a in st.names:
                    if a.name in _STD_VOCABULARY[st.module]:
                        table[a.asname or a.name] = _STD_VOCABULARY[st.module][a.name]
        root._pvs_std_imports = table       # type: ignore[attr-defined]
    return table.get(name, _MISSING)


_BUILTIN_VALUES = {"tuple": tuple, "list": list, "dict": dict, "set": set, "frozenset": frozenset, "str": str, "int": int, "float": float, "bool": bool, "bytes": bytes,
                   "ValueError": ValueError, "TypeError": TypeError, "KeyError": KeyError, "IndexError": IndexError, "NotImplemented": NotImplemented}
_STR_METHODS = {"startswith", "endswith", "split", "replace", "zfill", "ljust", "rjust", "strip", "lstrip", "rstrip", "upper", "lower",
                "find", "count", "isdigit", "partition", "rpartition", "join", "format"}


def ev(n: ast.AST, env: dict[str, Any], funcs: dict[str, ast.FunctionDef] | None = None, depth: int = 0) -> Any:
    funcs = funcs or {}
    t = type(n)
    if t is ast.Constant:
        return n.value
    if t is ast.Name:
        if n.id in env:
            return env[n.id]
        if n.id in ("True", "False", "None"):
            return {"True": True, "False": False, "None": None}[n.id]
        g = funcs.get("$globals") if funcs else None
        if isinstance(g, dict) and n.id in g:
            return g[n.id]
        if n.id in _BUILTIN_VALUES:
            return _BUILTIN_VALUES[n.id]
        fdef = funcs.get(n.id) if funcs else None
        if isinstance(fdef, (ast.FunctionDef, tuple)):
            # a function of the analysed module used as a value (an entry of a table, an argument): calling it interprets it
            fnode, ffuncs = (fdef, funcs) if isinstance(fdef, ast.FunctionDef) else fdef
            return lambda *a, **k: call(fnode, list(a), k, ffuncs, depth + 1)
        std = _std_import(n, n.id)
        if std is not _MISSING:
            return std
        std = _module_level(n, n.id, funcs, depth)
        if std is not _MISSING:
            return std
        raise Unsupported(f"free name `{n.id}`")
    if t is ast.Attribute:
        v = ev(n.value, env, funcs, depth)
        if isinstance(v, _OPEN) or v is _dt or (isinstance(v, type) and v in _STD_CLASSES):
            return _attr(v, n.attr, funcs, depth)
        if _is_record(v) or (isinstance(v, type) and issubclass(v, tuple) and hasattr(v, "_fields")):
            return getattr(v, n.attr)           # a field / method of a named tuple built from the analysed module's own class
        raise Unsupported(f"attribute `{un(n)[:40]}`")
    if t is ast.Subscript:
        v = ev(n.value, env, funcs, depth)
        if isinstance(n.slice, ast.Slice):
            lo = ev(n.slice.lower, env, funcs, depth) if n.slice.lower is not None else None
            hi = ev(n.slice.upper, env, funcs, depth) if n.slice.upper is not None else None
            stp = ev(n.slice.step, env, funcs, depth) if n.slice.step is not None else None
            return v[lo:hi:stp]
        idx = ev(n.slice, env, funcs, depth)
        try:
            return v[idx]
        except (KeyError, IndexError) as e:
            if isinstance(v, (dict, list, tuple, str)):
                raise Raised(f"raise reached: {type(e).__name__}: {e}", type(e).__name__) from None
            raise
    if t is ast.Call:
        if isinstance(n.func, ast.Name) and n.func.id == "cast" and len(n.args) == 2 and not n.keywords:
            return ev(n.args[1], env, funcs, depth)         # typing.cast: the type expression is not evaluated
        args = _starred(n.args, env, funcs, depth)
        kws = {}
        for k in n.keywords:
            if k.arg is None:
                mp = ev(k.value, env, funcs, depth)
                if not isinstance(mp, dict):
                    raise Unsupported("double-star argument that is not a dict")
                kws.update(mp)
            else:
                kws[k.arg] = ev(k.value, env, funcs, depth)
        if isinstance(n.func, ast.Name):
            if n.func.id == "cast" and len(args) == 2:
                return args[1]
            if n.func.id == "getattr" and len(args) in (2, 3) and isinstance(args[0], _OPEN) and isinstance(args[1], str):
                if isinstance(args[0], Obj):
                    try:
                        return _attr(args[0], args[1], funcs, depth)
                    except Unsupported:
                        if len(args) == 3:
                            return args[2]
                        raise AttributeError(args[1])
                return getattr(*args)
            if n.func.id == "super" and not args and not kws and n.func.id not in env:
                me = env.get("self", env.get("cls"))
                if isinstance(me, (Obj, ClassStub)) and ("_super" in vars(me) or "_super_natives" in vars(me)):
                    return SuperProxy(_obj=me)
            if n.func.id == "isinstance" and len(args) == 2:
                return _isinstance(args[0], args[1])
            if n.func.id == "hasattr" and len(args) == 2 and isinstance(args[1], str):
                if isinstance(args[0], Obj):
                    try:
                        _attr(args[0], args[1], funcs, depth)
                        return True
                    except Unsupported:
                        return False
                if isinstance(args[0], _OPEN) or args[0] is None or isinstance(args[0], (int, float, str)):
                    return hasattr(args[0], args[1])
                raise Unsupported("hasattr on an unknown value")
            if n.func.id == "dict" and len(args) <= 1:
                return dict(*args, **kws)
            tgt = env.get(n.func.id, (funcs.get("$globals") or {}).get(n.func.id) if isinstance(funcs.get("$globals"), dict) else None)
            if isinstance(tgt, Obj):            # `cls(...)` inside a classmethod evaluated on an instance stub
                return vars(tgt)["_ctor"](*args, **kws)
            if isinstance(tgt, ClassStub):
                return tgt(*args, **kws)
            if isinstance(tgt, type) and issubclass(tgt, tuple) and hasattr(tgt, "_fields"):
                return tgt(*args, **kws)
            if tgt in (_dt.timedelta, _dt.date, _dt.datetime, _dt.time, _operator.methodcaller, _operator.attrgetter, _operator.itemgetter) \
                    or isinstance(tgt, (types.BuiltinFunctionType, types.FunctionType)) and n.func.id not in env:
                # a standard-library constructor / function the world put into the globals (timedelta, copysign, ...)
                try:
                    return tgt(*args, **kws)
                except (ValueError, OverflowError, ZeroDivisionError) as e:
                    if isinstance(e, Raised):
                        raise           # a stub of the world reporting what the code it stands for raises
                    raise Raised(f"raise reached: {type(e).__name__}: {e}", type(e).__name__) from None
            if n.func.id == "type" and len(args) == 1 and isinstance(args[0], Obj):
                return vars(args[0])["_ctor"]
            if n.func.id in _BUILTINS:
                try:
                    return _BUILTINS[n.func.id](*args, **kws)
                except (ValueError, OverflowError, ZeroDivisionError) as e:
                    if isinstance(e, Raised):
                        raise           # a stub of the world reporting what the code it stands for raises
                    if all(isinstance(a, (str, int, float, bool, type(None))) for a in args):
                        # what the analysed code itself would raise here (int('1,5')): an outcome, not a limit of the interpreter
                        raise Raised(f"raise reached: {type(e).__name__}: {e}", type(e).__name__) from None
                    raise
            if n.func.id in funcs and isinstance(funcs[n.func.id], ast.FunctionDef) and depth < 8:
                return call(funcs[n.func.id], args, kws, funcs, depth + 1)
            if n.func.id in funcs and isinstance(funcs[n.func.id], tuple) and depth < 8:
                # a function of another analysed module: evaluated with that module's own functions and globals
                f_other, funcs_other = funcs[n.func.id]
                return call(f_other, args, kws, funcs_other, depth + 1)
        _g = (funcs.get("$globals") or {}) if isinstance(funcs.get("$globals"), dict) else {}
        _loc = env.get(n.func.id, _g.get(n.func.id)) if isinstance(n.func, ast.Name) else None
        if isinstance(n.func, ast.Call) or (isinstance(n.func, ast.Name) and callable(_loc) and isinstance(_loc, _CALLABLE_VALUES)):
            f = ev(n.func, env, funcs, depth)
            if isinstance(f, _CALLABLE_VALUES):
                return f(*args, **kws)
        if isinstance(n.func, ast.Attribute):
            recv = ev(n.func.value, env, funcs, depth)
            if isinstance(recv, str) and n.func.attr in _STR_METHODS:
                return getattr(recv, n.func.attr)(*args, **kws)
            if isinstance(recv, (int, float)) and not isinstance(recv, bool) and n.func.attr in ("as_integer_ratio", "is_integer", "bit_length", "conjugate") \
                    and hasattr(recv, n.func.attr):
                return getattr(recv, n.func.attr)()
            if isinstance(recv, _OPEN) or recv is _dt or (isinstance(recv, type) and recv in _STD_CLASSES):
                f = _attr(recv, n.func.attr, funcs, depth)
                if callable(f):
                    std = (isinstance(f, type) and f in _STD_CLASSES) or isinstance(recv, (_dt.timedelta, _dt.datetime, _dt.date, _dt.time)) \
                        or (isinstance(recv, type) and recv in _STD_CLASSES)
                    if not std:
                        return f(*args, **kws)
                    try:
                        return f(*args, **kws)
                    except (ValueError, OverflowError) as e:
                        if isinstance(e, Raised):
                            raise           # a stub of the world reporting what the code it stands for raises
                        # what the standard library raises for these arguments (date(2015, 2, 29)): an outcome of the analysed code
                        raise Raised(f"raise reached: {type(e).__name__}: {e}", type(e).__name__) from None
            if _is_record(recv) or (isinstance(recv, type) and issubclass(recv, tuple) and hasattr(recv, "_fields")):
                return getattr(recv, n.func.attr)(*args, **kws)
            if isinstance(recv, type) and (recv, n.func.attr) in ((dict, "fromkeys"), (str, "join"), (str, "format"), (int, "from_bytes"), (str, "maketrans")):
                return getattr(recv, n.func.attr)(*args, **kws)         # a pure class-level function of a builtin type
            if isinstance(recv, (dict, set, frozenset, list, tuple, types.MappingProxyType)) and n.func.attr in ("get", "keys", "values", "items", "index", "count", "copy"):
                return getattr(recv, n.func.attr)(*args, **kws)
        if isinstance(n.func, ast.Name) and n.func.id not in env and n.func.id not in _g and n.func.id not in funcs:
            std = _std_import(n, n.func.id)
            if std is not _MISSING and callable(std):
                return _std_call(std, args, kws)
            std = _module_level(n, n.func.id, funcs, depth)
            if std is not _MISSING and callable(std) and (isinstance(std, _CALLABLE_VALUES) or (isinstance(std, type) and issubclass(std, tuple))):
                return std(*args, **kws)
        if isinstance(n.func, (ast.Subscript, ast.IfExp, ast.BoolOp)):
            f = ev(n.func, env, funcs, depth)       # a callable taken out of a table of the analysed code
            if isinstance(f, _CALLABLE_VALUES) or f in (str, int, float, bool):
                return f(*args, **kws)
        raise Unsupported(f"call `{un(n)[:50]}`")
    if t is ast.UnaryOp:
        v = ev(n.operand, env, funcs, depth)
        if isinstance(n.op, ast.USub):
            return -v
        if isinstance(n.op, ast.UAdd):
            return +v
        if isinstance(n.op, ast.Not):
            return not v
    if t is ast.BinOp:
        a, b = ev(n.left, env, funcs, depth), ev(n.right, env, funcs, depth)
        ops = {ast.Add: lambda: a + b, ast.Sub: lambda: a - b, ast.Mult: lambda: a * b, ast.FloorDiv: lambda: a // b,
               ast.Mod: lambda: a % b, ast.Div: lambda: a / b, ast.Pow: lambda: a ** b}
        f = ops.get(type(n.op))
        if f is None:
            raise Unsupported(f"operator {type(n.op).__name__}")
        try:
            return f()
        except (TypeError, OverflowError, ZeroDivisionError, ValueError) as e:
            plain = (int, float, str, bool, _dt.timedelta, _dt.datetime, _dt.date, _dt.time)
            if isinstance(a, plain) and isinstance(b, plain):
                # what the analysed code itself raises here (aware - naive, 1 / 0): an outcome, not a limit of the interpreter
                raise Raised(f"raise reached: {type(e).__name__}: {e}", type(e).__name__) from None
            raise
    if t is ast.BoolOp:
        v = None
        for x in n.values:
            v = ev(x, env, funcs, depth)
            if isinstance(n.op, ast.And) and not v:
                return v
            if isinstance(n.op, ast.Or) and v:
                return v
        return v
    if t is ast.Compare:
        left = ev(n.left, env, funcs, depth)
        for op, r in zip(n.ops, n.comparators):
            right = ev(r, env, funcs, depth)
            ok = {ast.Eq: lambda: left == right, ast.NotEq: lambda: left != right, ast.Lt: lambda: left < right, ast.LtE: lambda: left <= right,
                  ast.Gt: lambda: left > right, ast.GtE: lambda: left >= right, ast.In: lambda: left in right,
                  ast.NotIn: lambda: left not in right, ast.Is: lambda: left is right, ast.IsNot: lambda: left is not right}[type(op)]()
            if not ok:
                return False
            left = right
        return True
    if t is ast.IfExp:
        return ev(n.body if ev(n.test, env, funcs, depth) else n.orelse, env, funcs, depth)
    if t in (ast.Tuple, ast.List):
        vals = _starred(n.elts, env, funcs, depth)
        return tuple(vals) if isinstance(n, ast.Tuple) else vals
    if t is ast.Lambda:
        a_ = n.args
        names = [x.arg for x in a_.args]
        dvals = [ev(d, env, funcs, depth) for d in a_.defaults]
        kwd = {x.arg: (ev(d, env, funcs, depth) if d is not None else _MISSING) for x, d in zip(a_.kwonlyargs, a_.kw_defaults)}
        outer = env

        def _lam(*args, **kws):
            if len(args) > len(names) and a_.vararg is None:
                raise TypeError("lambda takes fewer positional arguments")
            e2 = dict(outer)
            e2.update(zip(names, args))
            for nm, dv in zip(names[len(names) - len(dvals):], dvals):
                if nm not in kws and names.index(nm) >= len(args):
                    e2[nm] = dv
            for nm, dv in kwd.items():
                if nm not in kws and dv is not _MISSING:
                    e2[nm] = dv
            e2.update(kws)
            if a_.vararg is not None:
                e2[a_.vararg.arg] = tuple(args[len(names):])
            return ev(n.body, e2, funcs, depth + 1)
        return _lam
    if t is ast.NamedExpr:
        v = ev(n.value, env, funcs, depth)
        env[n.target.id] = v
        return v
    if t is ast.GeneratorExp:
        first = ev(n.generators[0].iter, env, funcs, depth)         # the outermost iterable is evaluated where the expression stands

        def _lazy(i, e2):
            g = n.generators[i]
            cnt = 0
            for item in (first if i == 0 else ev(g.iter, e2, funcs, depth)):
                cnt += 1
                if cnt > 5000:
                    raise Unsupported("generator expression over a long sequence")
                e3 = dict(e2)
                bind(g.target, item, e3)
                keep = all(ev(c, e3, funcs, depth) for c in g.ifs)
                _walrus_out(n, e3, env)
                if keep:
                    if i + 1 == len(n.generators):
                        v_ = ev(n.elt, e3, funcs, depth)
                        _walrus_out(n, e3, env)
                        yield v_
                    else:
                        yield from _lazy(i + 1, e3)
        return _lazy(0, dict(env))
    if t in (ast.ListComp, ast.SetComp, ast.DictComp):
        out_c: list[Any] = []

        def _gen(i, e2):
            if i == len(n.generators):
                if isinstance(n, ast.DictComp):
                    out_c.append((ev(n.key, e2, funcs, depth), ev(n.value, e2, funcs, depth)))
                else:
                    out_c.append(ev(n.elt, e2, funcs, depth))
                return
            g = n.generators[i]
            seq = list(ev(g.iter, e2, funcs, depth))
            if len(seq) > 5000:
                raise Unsupported("comprehension over a long sequence")
            for item in seq:
                e3 = dict(e2)
                bind(g.target, item, e3)
                keep = all(ev(c, e3, funcs, depth) for c in g.ifs)
                _walrus_out(n, e3, env)
                if keep:
                    _gen(i + 1, e3)
                    _walrus_out(n, e3, env)
        _gen(0, env)
        if isinstance(n, ast.DictComp):
            return dict(out_c)
        return set(out_c) if isinstance(n, ast.SetComp) else out_c
    if t is ast.Set:
        return set(_starred(n.elts, env, funcs, depth))
    if t is ast.Dict:
        out_d: dict[Any, Any] = {}
        for k, v in zip(n.keys, n.values):
            if k is None:
                out_d.update(ev(v, env, funcs, depth))
            else:
                out_d[ev(k, env, funcs, depth)] = ev(v, env, funcs, depth)
        return out_d
    if t is ast.JoinedStr:
        out = ""
        for v in n.values:
            if isinstance(v, ast.Constant):
                out += str(v.value)
            else:
                val = ev(v.value, env, funcs, depth)
                spec = ev(v.format_spec, env, funcs, depth) if v.format_spec is not None else ""
                if v.conversion == ord("r"):
                    val = repr(val)
                elif v.conversion == ord("s"):
                    val = str(val)
                out += format(val, spec)
        return out
    raise Unsupported(f"expression `{un(n)[:50]}`")


def copy_load(t: ast.AST) -> ast.AST:
    """the same subscript / attribute expression in load context"""
    if isinstance(t, ast.Subscript):
        return ast.Subscript(t.value, t.slice, ast.Load())
    return ast.Attribute(t.value, t.attr, ast.Load())


def bind(t: ast.AST, v: Any, env: dict[str, Any], funcs=None) -> None:
    if isinstance(t, ast.Name):
        env[t.id] = v
    elif isinstance(t, ast.Attribute) and isinstance(t.value, ast.Name) and isinstance(env.get(t.value.id), types.SimpleNamespace):
        setattr(env[t.value.id], t.attr, v)
    elif isinstance(t, ast.Attribute) and isinstance(t.value, ast.Name) and t.value.id not in env and funcs and isinstance(funcs.get("$globals"), dict) \
            and isinstance(funcs["$globals"].get(t.value.id), types.SimpleNamespace):
        setattr(funcs["$globals"][t.value.id], t.attr, v)          # an attribute of a module-level object the world provides (a stub of a module, ...)
    elif isinstance(t, ast.Subscript) and isinstance(t.value, ast.Name) and isinstance(env.get(t.value.id), (dict, list)) and not isinstance(t.slice, ast.Slice):
        env[t.value.id][ev(t.slice, env)] = v
    elif isinstance(t, ast.Subscript) and isinstance(t.value, ast.Attribute) and not isinstance(t.slice, ast.Slice):
        box = ev(t.value, env)
        if not isinstance(box, (dict, list)):
            raise Unsupported(f"assignment target `{un(t)[:40]}`")
        box[ev(t.slice, env)] = v
    elif isinstance(t, (ast.Tuple, ast.List)) and any(isinstance(e, ast.Starred) for e in t.elts):
        vals = list(v)
        i = next(k for k, e in enumerate(t.elts) if isinstance(e, ast.Starred))
        after = len(t.elts) - i - 1
        if len(vals) < len(t.elts) - 1:
            raise ValueError("unpack")
        for tt, vv in zip(t.elts[:i], vals[:i]):
            bind(tt, vv, env)
        bind(t.elts[i].value, vals[i:len(vals) - after], env)
        for tt, vv in zip(t.elts[i + 1:], vals[len(vals) - after:]):
            bind(tt, vv, env)
    elif isinstance(t, (ast.Tuple, ast.List)):
        vals = list(v)
        if len(vals) != len(t.elts):
            raise ValueError("unpack")
        for tt, vv in zip(t.elts, vals):
            bind(tt, vv, env)
    else:
        raise Unsupported(f"assignment target `{un(t)[:40]}`")


def run(stmts: list[ast.stmt], env: dict[str, Any], funcs: dict[str, ast.FunctionDef] | None = None, depth: int = 0) -> dict[str, Any]:
    for s in stmts:
        if isinstance(s, ast.Assign):
            v = ev(s.value, env, funcs, depth)
            for t in s.targets:
                bind(t, v, env, funcs)
        elif isinstance(s, ast.AnnAssign):
            if s.value is not None:
                bind(s.target, ev(s.value, env, funcs, depth), env, funcs)
        elif isinstance(s, ast.AugAssign):
            if isinstance(s.target, ast.Name):
                cur = ev(ast.Name(s.target.id, ast.Load()), env, funcs, depth)
            elif isinstance(s.target, (ast.Subscript, ast.Attribute)):
                load = copy_load(s.target)
                cur = ev(load, env, funcs, depth)
            else:
                raise Unsupported("augmented assignment target")
            bind(s.target, ev(ast.BinOp(ast.Constant(cur), s.op, s.value), env, funcs, depth), env)
        elif isinstance(s, ast.If):
            run(s.body if ev(s.test, env, funcs, depth) else s.orelse, env, funcs, depth)
        elif isinstance(s, ast.Return):
            raise _Return(ev(s.value, env, funcs, depth) if s.value is not None else None)
        elif isinstance(s, ast.While):
            it = 0
            broke = False
            while ev(s.test, env, funcs, depth):
                it += 1
                if it > MAX_ITER:
                    raise Unsupported("loop does not terminate within the iteration bound")
                try:
                    run(s.body, env, funcs, depth)
                except _Break:
                    broke = True
                    break
                except _Continue:
                    continue
            if not broke and s.orelse:
                run(s.orelse, env, funcs, depth)
        elif isinstance(s, ast.For):
            seq = ev(s.iter, env, funcs, depth)
            if isinstance(seq, (list, tuple, str, dict, set, frozenset, range)) and len(seq) > MAX_ITER:
                raise Unsupported("loop too long")
            broke = False
            it = 0
            for item in seq:
                it += 1
                if it > MAX_ITER:
                    raise Unsupported("loop too long")
                bind(s.target, item, env)
                try:
                    run(s.body, env, funcs, depth)
                except _Break:
                    broke = True
                    break
                except _Continue:
                    continue
            if not broke and s.orelse:
                run(s.orelse, env, funcs, depth)
        elif isinstance(s, ast.Break):
            raise _Break()
        elif isinstance(s, ast.Continue):
            raise _Continue()
        elif isinstance(s, ast.FunctionDef):
            # a local closure: callable by name with the enclosing environment as its globals of last resort
            outer = env

            def _closure(*a, _fn=s, _outer=outer, **k):
                sub = dict(funcs or {})
                g = dict(sub.get("$globals") or {})
                g.update({kk: vv for kk, vv in _outer.items() if not kk.startswith("$")})
                sub["$globals"] = g
                return call(_fn, list(a), k, sub, depth + 1)
            env[s.name] = _closure
        elif isinstance(s, (ast.Pass, ast.Import, ast.ImportFrom)):
            pass        # a local import binds names the world provides among the globals
        elif isinstance(s, ast.Expr) and isinstance(s.value, ast.Constant):
            pass
        elif isinstance(s, ast.Expr) and isinstance(s.value, ast.Call) and isinstance(s.value.func, ast.Attribute) \
                and s.value.func.attr in ("append", "extend", "add", "update", "insert", "setdefault", "pop", "remove", "clear", "sort", "reverse", "discard"):
            # a mutating call on a plain container built by the evaluated code itself
            recv = ev(s.value.func.value, env, funcs, depth)
            if not isinstance(recv, (list, dict, set)):
                raise Unsupported(f"statement `{un(s)[:50]}`")
            a_ = _starred(s.value.args, env, funcs, depth)
            k_ = {k.arg: ev(k.value, env, funcs, depth) for k in s.value.keywords if k.arg is not None}
            getattr(recv, s.value.func.attr)(*a_, **k_)
        elif isinstance(s, ast.Expr) and isinstance(s.value, ast.Call):
            ev(s.value, env, funcs, depth)          # evaluated for the calls it makes on stubs (recorded by them)
        elif isinstance(s, ast.Expr) and isinstance(s.value, (ast.Yield, ast.YieldFrom)):
            raise Unsupported("`yield` in a position the interpreter does not run lazily")
        elif isinstance(s, ast.Try):
            try:
                try:
                    run(s.body, env, funcs, depth)
                except Raised as e:
                    for h in s.handlers:
                        names = [] if h.type is None else _handler_names(h.type, env, funcs, depth)
                        if h.type is None or _exc_matches(e.exc_name, names):
                            if h.name:
                                env[h.name] = e
                            try:
                                run(h.body, env, funcs, depth)
                            except Raised as e2:
                                if e2.exc_name == "":       # bare `raise` inside the handler
                                    raise e
                                raise
                            break
                    else:
                        raise
                else:
                    run(s.orelse, env, funcs, depth)
            finally:
                if s.finalbody:
                    run(s.finalbody, env, funcs, depth)
        elif isinstance(s, ast.With) and all(isinstance(it.context_expr, ast.Call) and un(it.context_expr.func) in ("contextlib.suppress", "suppress")
                                             and it.optional_vars is None for it in s.items):
            # `with contextlib.suppress(E, ...)`: the body, with the listed exceptions swallowed
            names = [nm for it in s.items for a in it.context_expr.args for nm in _handler_names(a, env, funcs, depth)]
            try:
                run(s.body, env, funcs, depth)
            except Raised as e:
                if not _exc_matches(e.exc_name, names):
                    raise
        elif isinstance(s, ast.Raise):
            exc = s.exc.func if isinstance(s.exc, ast.Call) else s.exc
            raise Raised("raise reached", un(exc) if exc is not None else "")
        else:
            raise Unsupported(f"statement `{un(s)[:50]}`")
    return env


def _has_yield(s: ast.AST) -> bool:
    c = getattr(s, "_pvs_has_yield", None)
    if c is None:
        c = any(isinstance(x, (ast.Yield, ast.YieldFrom)) for x in ast.walk(s)) and not isinstance(s, (ast.FunctionDef, ast.Lambda))
        try:
            s._pvs_has_yield = c        # type: ignore[attr-defined]
        except AttributeError:
            pass
    return c


def run_gen(stmts, env, funcs, depth):
    """the body of a generator function, as a Python generator: statements without a `yield` are run as usual, the compound statements
    that contain one (if / while / for / try) are walked here so that the evaluation stops at each `yield` until the next value is asked for"""
    for s in stmts:
        if not _has_yield(s):
            run([s], env, funcs, depth)
        elif isinstance(s, ast.Expr) and isinstance(s.value, ast.Yield):
            yield ev(s.value.value, env, funcs, depth) if s.value.value is not None else None
        elif isinstance(s, ast.Expr) and isinstance(s.value, ast.YieldFrom):
            yield from ev(s.value.value, env, funcs, depth)
        elif isinstance(s, ast.If):
            yield from run_gen(s.body if ev(s.test, env, funcs, depth) else s.orelse, env, funcs, depth)
        elif isinstance(s, ast.While):
            it, broke = 0, False
            while ev(s.test, env, funcs, depth):
                it += 1
                if it > MAX_ITER:
                    raise Unsupported("loop does not terminate within the iteration bound")
                try:
                    yield from run_gen(s.body, env, funcs, depth)
                except _Break:
                    broke = True
                    break
                except _Continue:
                    continue
            if not broke and s.orelse:
                yield from run_gen(s.orelse, env, funcs, depth)
        elif isinstance(s, ast.For):
            it, broke = 0, False
            for item in ev(s.iter, env, funcs, depth):
                it += 1
                if it > MAX_ITER:
                    raise Unsupported("loop too long")
                bind(s.target, item, env)
                try:
                    yield from run_gen(s.body, env, funcs, depth)
                except _Break:
                    broke = True
                    break
                except _Continue:
                    continue
            if not broke and s.orelse:
                yield from run_gen(s.orelse, env, funcs, depth)
        else:
            raise Unsupported(f"`yield` inside `{type(s).__name__.lower()}`")


_PLAIN_DECORATORS = {"property", "classmethod", "staticmethod", "overload", "typing.overload", "abstractmethod", "abc.abstractmethod", "functools.cached_property", "cached_property",
                     "final", "typing.final"}


def call(fn: ast.FunctionDef, args: list[Any], kws: dict[str, Any] | None = None, funcs: dict[str, ast.FunctionDef] | None = None,
         depth: int = 0, _raw: bool = False) -> Any:
    if not _raw and fn.decorator_list:
        custom = [d for d in fn.decorator_list if un(d.func if isinstance(d, ast.Call) else d) not in _PLAIN_DECORATORS and not un(d).endswith((".setter", ".getter", ".deleter"))]
        if custom:
            # a decorator of the analysed program (a guard, a wrapper): applied as the program applies it - innermost first - to the interpreted function
            if depth > 10:
                raise Unsupported("call depth")
            f = lambda *a, **k: call(fn, list(a), k, funcs, depth + 1, True)        # noqa: E731
            for d in reversed(custom):
                deco = ev(d, {}, funcs, depth + 1)
                if not callable(deco):
                    raise Unsupported(f"decorator `{un(d)[:40]}` is not callable in the interpreter")
                f = deco(f)
            return f(*args, **(kws or {}))
    names = [a.arg for a in fn.args.args]
    env = dict(zip(names, args))
    if fn.args.vararg is not None:
        env[fn.args.vararg.arg] = tuple(args[len(names):])
    elif len(args) > len(names):
        raise TypeError(f"{fn.name}() takes {len(names)} positional arguments but {len(args)} were given")
    known = set(names) | {a.arg for a in fn.args.kwonlyargs}
    extra = {k: v for k, v in (kws or {}).items() if k not in known}
    if fn.args.kwarg is not None:
        env[fn.args.kwarg.arg] = extra
    elif extra:
        raise TypeError(f"{fn.name}() got an unexpected keyword argument {sorted(extra)[0]!r}")
    env.update({k: v for k, v in (kws or {}).items() if k in known})
    for a, d in zip(fn.args.kwonlyargs, fn.args.kw_defaults):
        if a.arg not in env and d is not None:
            env[a.arg] = ev(d, {}, funcs, depth)
    dflt = fn.args.defaults
    for nme, d in zip(names[len(names) - len(dflt):], dflt):
        if nme not in env:
            env[nme] = ev(d, {}, funcs, depth)
    body = list(fn.body)
    if body and isinstance(body[0], ast.Expr) and isinstance(body[0].value, ast.Constant) and isinstance(body[0].value.value, str):
        body = body[1:]
    is_gen = getattr(fn, "_pvs_is_gen", None)
    if is_gen is None:
        is_gen = fn._pvs_is_gen = any(isinstance(x, (ast.Yield, ast.YieldFrom)) for st in body for x in ast.walk(st))
    if is_gen:
        # a generator function: its body runs lazily, one `yield` at a time, as the consumer asks for values
        def _generator():
            try:
                yield from run_gen(body, env, funcs, depth)
            except _Return:
                return
        return _generator()
    try:
        run(body, env, funcs, depth)
    except _Return as r:
        return r.value
    return None


def module_tables(m, glob: dict[str, Any], funcs: dict[str, Any]) -> None:
    """adds to `glob` the module-level names of `m` that are not there yet and whose value the interpreter can evaluate in `glob`
    (tables of the analysed module that a function consults: tuples / dicts of constants, classes of the world and functions of the module)"""
    for top in m.tree.body:
        if isinstance(top, (ast.Assign, ast.AnnAssign)):
            tg = top.targets[0] if isinstance(top, ast.Assign) and len(top.targets) == 1 else getattr(top, "target", None)
            if isinstance(tg, ast.Name) and getattr(top, "value", None) is not None and tg.id not in glob:
                try:
                    glob[tg.id] = ev(top.value, {}, {**funcs, "$globals": glob})
                except Exception:       # noqa: BLE001 - a name that cannot be evaluated stays free: using it is Unsupported
                    pass


_CLASS_LEVEL: dict[tuple[int, str], dict[str, Any]] = {}


def class_level(m, cls: str) -> dict[str, Any]:
    """the class-level data attributes of an analysed class (and of its base classes in the same module) whose value the interpreter can
    evaluate: constants and tables of constants (names of accessors, keys, ...), for instance stubs of the class"""
    key = (id(m), cls)
    if key not in _CLASS_LEVEL:
        from .. import core as _core
        chain = [cls]
        while True:
            nxt = [b for b in (_core.dotted(b) for b in m.cls(chain[-1]).bases) if b and b not in chain and m.has_cls(b)]
            if not nxt:
                break
            chain.append(nxt[0])
        out: dict[str, Any] = {}
        g = {"$globals": module_consts(m)}
        for c in reversed(chain):
            for st in m.cls(c).body:
                if isinstance(st, (ast.Assign, ast.AnnAssign)) and getattr(st, "value", None) is not None:
                    t = st.targets[0] if isinstance(st, ast.Assign) and len(st.targets) == 1 else getattr(st, "target", None)
                    if isinstance(t, ast.Name):
                        try:
                            out[t.id] = ev(st.value, dict(out), g)
                        except Exception:       # noqa: BLE001 - not data the interpreter can evaluate: reading it stays Unsupported
                            out.pop(t.id, None)
        _CLASS_LEVEL[key] = out
    return dict(_CLASS_LEVEL[key])


def module_consts(m) -> dict[str, Any]:
    """the constant environment of an analysed module for the interpreter: names imported from pendulum.constants and the module's
    own top-level assignments whose value folds to a literal (numbers, strings, tuples, lists, dicts of those) - `core.fold`, the
    checker's constant folder; nothing is imported or executed"""
    from .. import core as _core
    out: dict[str, Any] = {}
    for st in m.tree.body:
        if isinstance(st, ast.ImportFrom) and st.module == "pendulum.constants":
            for a in st.names:
                try:
                    out[a.asname or a.name] = _core.const("constants", a.name)
                except Exception:       # noqa: BLE001
                    pass
    for st in m.top():
        tgt = st.targets[0] if isinstance(st, ast.Assign) and len(st.targets) == 1 else st.target if isinstance(st, ast.AnnAssign) else None
        if isinstance(tgt, ast.Name) and getattr(st, "value", None) is not None:
            try:
                v = _core.fold(st.value, m)
            except Exception:       # noqa: BLE001
                continue
            if _plain(v):
                out[tgt.id] = v
    # constants built by a standard-library functor constructor (operator.methodcaller("add", days=1), attrgetter, itemgetter) from literals
    names = {}
    for st in m.tree.body:
        if isinstance(st, ast.ImportFrom) and st.module == "operator":
            for a in st.names:
                if a.name in ("methodcaller", "attrgetter", "itemgetter"):
                    names[a.asname or a.name] = getattr(_operator, a.name)
        elif isinstance(st, ast.Import):
            for a in st.names:
                if a.name == "operator":
                    names[a.asname or "operator"] = Stub(methodcaller=_operator.methodcaller, attrgetter=_operator.attrgetter, itemgetter=_operator.itemgetter)
    if names:
        for st in m.top():
            tgt = st.targets[0] if isinstance(st, ast.Assign) and len(st.targets) == 1 else st.target if isinstance(st, ast.AnnAssign) else None
            v = getattr(st, "value", None)
            if isinstance(tgt, ast.Name) and tgt.id not in out and isinstance(v, ast.Call):
                d = _core.dotted(v.func) or ""
                if d in names or (d.split(".")[0] in names and d.split(".")[-1] in ("methodcaller", "attrgetter", "itemgetter")):
                    try:
                        out[tgt.id] = ev(v, dict(out), {"$globals": names})
                    except Exception:       # noqa: BLE001
                        pass
    return out


def _plain(v, depth: int = 0) -> bool:
    if isinstance(v, (int, float, str, bool, type(None))):
        return True
    if depth > 4:
        return False
    if isinstance(v, (tuple, list, set, frozenset)):
        return all(_plain(x, depth + 1) for x in v)
    if isinstance(v, dict):
        return all(_plain(k, depth + 1) and _plain(x, depth + 1) for k, x in v.items())
    return False
