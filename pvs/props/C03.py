"""C03 — adding fixed-length units moves the instant by exactly that amount."""
from __future__ import annotations

import ast

from .. import cfg, core
from ..core import nun, pmod
from ..rules import addduration as AD
from ..rules import recon

EXPLANATION = (
    "Decided statically: (1) DateTime.add classifies exactly {years, months, weeks, days} as calendar units; "
    "(2) on the fixed-length branch the value is: naive copy of self - self.utcoffset() -> add_duration (all 8 "
    "units forwarded) -> tagged tzinfo=UTC -> self.tz.convert -> rebuilt with tzinfo=self.tz and the converted "
    "fold; that exit is reachable only without calendar units and with a zone; the naive case goes through "
    "create(tz=self.tz); (3) subtract() negates every parameter of add(); (4) the plain-timedelta arms of "
    "_add_timedelta_/_subtract_timedelta mirror each other through total_seconds() and the operators route to "
    "them behind an isinstance guard; (5) add_duration's carry chain uses the right radix and target for every "
    "unit. NOT decided: exactness of the float `seconds` path, zoneinfo's rendering of the shifted instant."
    ' Also: the month-end clamp every add() runs through (statement order, clamp expression) and what it relies on - the DAYS_PER_MONTHS rows and the Gregorian is_leap rule in both back ends.'
    ' As built: ADD.tabulated (helpers.add_duration on standard-library values) and SHIFT.tabulated (DateTime.add/subtract and Date.add/subtract interpreted in the wall-clock world, instances before/inside/after a skipped or repeated hour, both folds, every unit and sign, base offset +02:00 and +00:00) decide the values; where they succeed the shape rules of the carry chain, the clamp and the two exits of add() are established by them.'
)


def _timedelta_arms(ctx) -> None:
    m = pmod("datetime")
    from . import C04 as _C04
    # what the `+ delta` / `- delta` helpers hand to add() / subtract() for each kind of operand, on values (a plain timedelta: its elapsed length in clock units)
    _C04._delta_tabulate(ctx, m, "DateTime", "_add_timedelta_", "_subtract_timedelta", AD.ADD_PARAMS)
    for q, meth in (("DateTime._add_timedelta_", "self.add"), ("DateTime._subtract_timedelta", "self.subtract")):
        fn = m.func(q)
        dp = core.params(fn)[0]
        from . import C04
        try:
            arm = [a for a in C04.ladder(m, q) if a[0] == "plain"]
        except core.Unsupported as e:
            ctx.unverified("TDARM.plain", f"{q}/plain-timedelta", str(e), m.loc(fn))
            continue
        if not arm:
            ctx.ob("TDARM.plain", f"{q}/plain-timedelta", False, "no outcome for an operand that is a plain timedelta", m.loc(fn))
            continue
        _, callee, args = arm[0]
        shown = f"{callee}({args if isinstance(args, str) else ', '.join(f'{k}={v}' for k, v in sorted(args.items()))})"
        ctx.ob("TDARM.plain", f"{q}/plain-timedelta", callee == meth and args == {"seconds": f"{dp}.total_seconds()"},
               f"for a plain timedelta the helper returns `{shown}`; must be {meth}(seconds={dp}.total_seconds())", m.loc(fn))
    # operators
    addf = m.func("DateTime.__add__")
    op = core.params(addf)[0]
    for p in cfg.paths(addf):
        ex = p.exit()
        is_td = p.holds(f"isinstance({op}, datetime.timedelta)")
        val = nun(ex[2].value) if ex[1] == "return" else "<no return>"
        if is_td is False:
            ctx.ob("DUNDER.guard", "DateTime.__add__/non-timedelta", val == "NotImplemented",
                   f"returns `{val}` for a non-timedelta operand", m.loc(ex[2] or addf))
        elif p.holds("caller == 'astimezone'") is True:
            ctx.ob("DUNDER.route", "DateTime.__add__/astimezone-internal", val == f"super().__add__({op})",
                   f"returns `{val}`", m.loc(ex[2] or addf), nontrivial=False)
        else:
            ctx.ob("DUNDER.route", "DateTime.__add__/timedelta", val == f"self._add_timedelta_({op})",
                   f"returns `{val}`; must route to self._add_timedelta_({op})", m.loc(ex[2] or addf))
    if "__radd__" in m.methods("DateTime") or m.class_aliases("DateTime").get("__radd__"):
        if m.class_aliases("DateTime").get("__radd__") == "__add__":
            ctx.ob("DUNDER.route", "DateTime.__radd__", True, "__radd__ = __add__", m.rel)
        else:
            r = core.returns(m.func("DateTime.__radd__"))
            ctx.ob("DUNDER.route", "DateTime.__radd__", len(r) == 1 and nun(r[0].value) in ("self.__add__(other)", "self + other", "self._add_timedelta_(other)"),
                   f"returns `{[nun(x.value) for x in r]}`", m.loc(m.func("DateTime.__radd__")))
    else:
        ctx.ob("DUNDER.route", "DateTime.__radd__", False,
               "DateTime defines no __radd__: `timedelta + dt` is answered by datetime.__radd__, which adds on the wall clock and "
               "keeps the tzinfo (across a transition the result is off by the offset change and may not exist)", m.rel)
    subf = m.func("DateTime.__sub__")
    op = core.params(subf)[0]
    seen = False
    for p in cfg.paths(subf):
        if p.holds(f"isinstance({op}, datetime.timedelta)") is True:
            seen = True
            ex = p.exit()
            val = nun(ex[2].value) if ex[1] == "return" else "<no return>"
            ctx.ob("DUNDER.route", "DateTime.__sub__/timedelta", val == f"self._subtract_timedelta({op})",
                   f"returns `{val}`; must route to self._subtract_timedelta({op})", m.loc(ex[2] or subf))
    if not seen:
        ctx.ob("DUNDER.route", "DateTime.__sub__/timedelta", False, "no timedelta arm", m.loc(subf))


def run(ctx) -> None:
    ctx.explanation = EXPLANATION
    m = pmod("datetime")
    ctx.step(AD.datetime_add_shape, ctx)
    from . import C01
    ctx.step(C01._convert_aware, ctx, "Timezone")          # add() renders the shifted instant through tz.convert(): its aware path must be astimezone(self)
    ctx.step(C01._convert_aware, ctx, "FixedTimezone")
    ctx.step(AD.neg_symmetry, ctx, m, "DateTime")
    ctx.step(_timedelta_arms, ctx)
    ctx.step(AD.carry_blocks, ctx)
    ctx.step(AD.month_clamp_order, ctx)      # every add() runs the month-end clamp, whatever the units
    from . import C15
    ctx.step(C15.clamp_dependencies, ctx)
    sites = [s for s in recon.sites_in(m, ["DateTime.add"])]
    for s in sites:
        recon.check_site(ctx, s)
        if s.callee == "self.__class__":
            tz = s.bound.get("tzinfo")
            ctx.ob("RECON.rewrap", "DateTime.add/final-rewrap", tz is not None and nun(tz) in ("self.tz", "dt.tzinfo", "self.tzinfo"),
                   f"tzinfo={nun(tz)}; must be the zone the value was converted into", s.loc)
            fd = s.bound.get("fold")
            ctx.ob("RECON.rewrap", "DateTime.add/final-fold", fd is not None and nun(fd) == f"{s.src}.fold",
                   f"fold={nun(fd)}; the fold chosen by convert() for the shifted instant must be kept", s.loc)
    ctx.count("recon_sites", len(sites))
    ctx.expect_min("ADD", 6)
    ctx.expect_min("NEGSYM", 9)
    ctx.expect_min("UNITS.carry", 15)
    ctx.expect_min("RECON.slot", 28)
    ctx.assumptions += ["datetime + timedelta on naive values is exact integer arithmetic (stdlib)"]
    _ = ast
