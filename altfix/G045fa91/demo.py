"""diff_for_humans(other, locale='zh') must work for differences that are not
relative to now.  Expected strings are hand-written: <amount><unit>前 (before)
or 后 (after), with the CLDR units 年 / 个月 / 周 / 天 / 小时 / 分钟 / 秒钟."""
import os
import sys

import pendulum

failures = []
base = pendulum.datetime(2020, 3, 10, 12, 0, 0)

CASES = [
    (dict(years=2), "2年"),
    (dict(months=3), "3个月"),
    (dict(weeks=2), "2周"),
    (dict(days=4), "4天"),
    (dict(hours=1), "1小时"),
    (dict(hours=5), "5小时"),
    (dict(minutes=7), "7分钟"),
    (dict(seconds=30), "30秒钟"),
    (dict(seconds=2), "2秒钟"),
]
for kwargs, amount in CASES:
    other = base.add(**kwargs)
    for a, b, suffix in ((base, other, "前"), (other, base, "后")):
        try:
            got = a.diff_for_humans(b, locale="zh")
        except Exception as e:
            failures.append(f"{kwargs} zh: raised {e!r}, expected {amount + suffix!r}")
            continue
        if got != amount + suffix:
            failures.append(f"{kwargs} zh: {got!r}, expected {amount + suffix!r}")

# relative to now and absolute output of zh are what they were
for got, want in (
    (pendulum.now().subtract(hours=3).diff_for_humans(locale="zh"), "3小时前"),
    (pendulum.now().add(days=2, minutes=5).diff_for_humans(locale="zh"), "2天后"),
    (base.diff_for_humans(base.add(hours=3), absolute=True, locale="zh"), "3小时"),
):
    if got != want:
        failures.append(f"zh: {got!r}, expected {want!r}")

# locales with positional templates give the same text as ever
for (locale, want_before, want_after, want_few) in (
    ("en", "1 hour before", "1 hour after", "a few seconds before"),
    ("fr", "1 heure avant", "1 heure après", "quelques secondes avant"),
    ("de", "1 Stunde zuvor", "1 Stunde später", "2 Sekunden zuvor"),
):
    other = base.add(hours=1)
    got = (base.diff_for_humans(other, locale=locale),
           other.diff_for_humans(base, locale=locale),
           base.diff_for_humans(base.add(seconds=2), locale=locale))
    if got != (want_before, want_after, want_few):
        failures.append(f"{locale}: {got!r}")

# no locale at all may raise for a difference between two instants
locales_dir = os.path.join(os.path.dirname(pendulum.__file__), "locales")
for name in sorted(os.listdir(locales_dir)):
    if not os.path.isfile(os.path.join(locales_dir, name, "locale.py")):
        continue
    for kwargs in (dict(seconds=2), dict(minutes=3), dict(days=1), dict(years=5)):
        other = base.add(**kwargs)
        for a, b in ((base, other), (other, base)):
            try:
                text = a.diff_for_humans(b, locale=name)
                if "{" in text or "}" in text:
                    failures.append(f"{name} {kwargs}: unfilled template {text!r}")
            except Exception as e:
                failures.append(f"{name} {kwargs}: raised {e!r}")

for f in failures[:25]:
    print("FAIL", f)
print("failures:", len(failures))
sys.exit(1 if failures else 0)
