"""Canonical strings for expressions coming from Python ASTs or from MIR
symbolic execution, so that the two can be compared: arithmetic is brought to
polynomial normal form recursively, names are mapped to roles, transparent
wrappers (int(), cast, usize::from) are dropped, comparisons become
`<poly> OP 0`."""
from __future__ import annotations

import ast
from fractions import Fraction

from ..core import strip_casts
from .units import Poly, _add, _mul, show

TRANSPARENT = {"int", "usize", "i32", "u32", "i64", "bool", "math.floor", "floor"}
CMP_S = {ast.Lt: "<", ast.LtE: "<=", ast.Gt: ">", ast.GtE: ">=", ast.Eq: "==", ast.NotEq: "!=", ast.Is: "is",
         ast.IsNot: "is not", ast.In: "in", ast.NotIn: "not in"}
FLIP = {"<": ">", "<=": ">=", ">": "<", ">=": "<=", "==": "==", "!=": "!="}


class Canon:
    def __init__(self, rename: dict[str, str] | None = None, consts: dict[str, int | float] | None = None,
                 floordiv: bool = True):
        self.rename = rename or {}
        self.consts = consts or {}

    def s(self, n: ast.AST) -> str:
        n = strip_casts(n)
        return self._s(n)

    def poly(self, n: ast.AST) -> Poly:
        if isinstance(n, ast.Constant) and isinstance(n.value, (int, float)) and not isinstance(n.value, bool):
            return {(): Fraction(n.value)} if n.value != 0 else {}
        if isinstance(n, ast.UnaryOp) and isinstance(n.op, ast.USub):
            return _add({}, self.poly(n.operand), -1)
        if isinstance(n, ast.BinOp) and isinstance(n.op, (ast.Add, ast.Sub)):
            return _add(self.poly(n.left), self.poly(n.right), 1 if isinstance(n.op, ast.Add) else -1)
        if isinstance(n, ast.BinOp) and isinstance(n.op, ast.Mult):
            return _mul(self.poly(n.left), self.poly(n.right))
        if isinstance(n, ast.BinOp) and isinstance(n.op, (ast.FloorDiv, ast.Mod, ast.Div)):
            l, r = self.poly(n.left), self.poly(n.right)
            op = {ast.FloorDiv: "fdiv", ast.Mod: "mod", ast.Div: "div"}[type(n.op)]
            return {(f"{op}({show(l)}, {show(r)})",): Fraction(1)}
        if isinstance(n, ast.Name) and n.id in self.consts:
            v = self.consts[n.id]
            return {(): Fraction(v)} if v != 0 else {}
        if isinstance(n, ast.Call) and ast.unparse(n.func) in TRANSPARENT and len(n.args) == 1 and not n.keywords:
            return self.poly(n.args[0])
        return {(self._s(n),): Fraction(1)}

    def _s(self, n: ast.AST) -> str:
        if isinstance(n, (ast.BinOp, ast.UnaryOp, ast.Constant)) and not (
                isinstance(n, ast.Constant) and not isinstance(n.value, (int, float))) and not (
                isinstance(n, ast.UnaryOp) and isinstance(n.op, ast.Not)):
            if isinstance(n, ast.Constant) and isinstance(n.value, bool):
                return str(n.value)
            return show(self.poly(n))
        if isinstance(n, ast.Name):
            if n.id in self.consts:
                return show(self.poly(n))
            return self.rename.get(n.id, n.id)
        if isinstance(n, ast.Attribute):
            full = ast.unparse(n)
            if full in self.rename:
                return self.rename[full]
            return f"{self._s(n.value)}.{n.attr}"
        if isinstance(n, ast.Subscript):
            return f"{self._s(n.value)}[{self._s(n.slice)}]"
        if isinstance(n, ast.Call):
            fname = self._s(n.func)
            if fname in TRANSPARENT and len(n.args) == 1 and not n.keywords:
                return self._s(n.args[0])
            args = [self._s(a) for a in n.args] + [f"{k.arg}={self._s(k.value)}" for k in n.keywords]
            return f"{fname}({', '.join(args)})"
        if isinstance(n, ast.Compare) and len(n.ops) == 1:
            return self.cmp(n)
        if isinstance(n, ast.UnaryOp) and isinstance(n.op, ast.Not):
            return f"not ({self._s(n.operand)})"
        if isinstance(n, ast.Tuple):
            return "(" + ", ".join(self._s(e) for e in n.elts) + ")"
        if isinstance(n, ast.Constant):
            return repr(n.value)
        if isinstance(n, ast.BoolOp):
            op = " and " if isinstance(n.op, ast.And) else " or "
            return "(" + op.join(self._s(v) for v in n.values) + ")"
        return ast.unparse(n)

    def cmp(self, n: ast.Compare) -> str:
        op = CMP_S[type(n.ops[0])]
        if op in FLIP:
            d = _add(self.poly(n.left), self.poly(n.comparators[0]), -1)
            # sign-normalise: make the first monomial's coefficient positive
            if d:
                first = sorted(d, key=lambda t: (len(t), t))[-1]
                if d[first] < 0:
                    d = {m: -c for m, c in d.items()}
                    op = FLIP[op]
            return f"{show(d)} {op} 0"
        return f"{self._s(n.left)} {op} {self._s(n.comparators[0])}"

    def cond(self, n: ast.AST, outcome: bool) -> tuple[str, bool]:
        """canonical (atom, polarity): `!=`/`>=`/`>` are expressed through ==, <, <= negated."""
        n = strip_casts(n)
        if isinstance(n, ast.UnaryOp) and isinstance(n.op, ast.Not):
            return self.cond(n.operand, not outcome)
        if isinstance(n, ast.Compare) and len(n.ops) == 1:
            s = self.cmp(n)
            lhs, op, _z = s.rsplit(" ", 2)
            neg = {">=": "<", ">": "<=", "!=": "=="}
            if op in neg:
                return f"{lhs} {neg[op]} 0", not outcome
            return s, outcome
        return self._s(n), outcome
