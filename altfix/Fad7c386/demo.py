"""start_of()/end_of() for 'hour', 'minute', 'second' around DST transitions.

Expected (computed with zoneinfo, PEP 495): the boundary keeps the fold of the instance when the
boundary wall time exists (so the occurrence of a repeated time is preserved); a boundary that does
not exist is moved forward for start_of() and backward for end_of(), whatever the fold."""
import datetime as dt
import sys
from zoneinfo import ZoneInfo

import pendulum

UTC = dt.timezone.utc
bad = []
checked = 0

START = {"hour": dict(minute=0, second=0, microsecond=0),
         "minute": dict(second=0, microsecond=0),
         "second": dict(microsecond=0)}
END = {"hour": dict(minute=59, second=59, microsecond=999999),
       "minute": dict(second=59, microsecond=999999),
       "second": dict(microsecond=999999)}


def expected(p, fields, forward):
    z = ZoneInfo(p.timezone_name)
    wall = dt.datetime(p.year, p.month, p.day, p.hour, p.minute, p.second, p.microsecond).replace(**fields)
    exists = wall.replace(tzinfo=z).astimezone(UTC).astimezone(z).replace(tzinfo=None) == wall
    if exists:
        return wall.replace(tzinfo=z, fold=p.fold)
    # in a gap fold=0 carries the offset before the transition (the round trip through UTC moves the
    # wall time forward by the gap) and fold=1 the offset after it (moves it backward)
    return wall.replace(tzinfo=z, fold=0 if forward else 1).astimezone(UTC).astimezone(z)


def check(p):
    global checked
    for unit in ("hour", "minute", "second"):
        for name, fields, forward in (("start_of", START[unit], True), ("end_of", END[unit], False)):
            got = getattr(p, name)(unit)
            want = expected(p, fields, forward)
            checked += 1
            if (
                got.replace(tzinfo=None) != want.replace(tzinfo=None)
                or got.utcoffset() != want.utcoffset()
            ):
                bad.append(
                    f"{p.isoformat()} fold={p.fold} [{p.timezone_name}] {name}({unit!r}): "
                    f"got {got.isoformat()}, expected {want.isoformat()}"
                )
            elif name == "start_of" and got.start_of(unit).isoformat() != got.isoformat():
                bad.append(f"{p.isoformat()} fold={p.fold} start_of({unit!r}) is not idempotent")


# the example of the report: Lord Howe skips 02:00-02:30 on 2018-10-07
p = pendulum.datetime(2018, 10, 6, 15, 45, tz="UTC").in_timezone("Australia/Lord_Howe")
assert (p.hour, p.minute, p.fold) == (2, 45, 0), p
if p.start_of("hour").isoformat() != "2018-10-07T02:30:00+11:00":
    bad.append(f"Lord_Howe example: start_of('hour') of 02:45+11:00 = {p.start_of('hour').isoformat()}")
# St. John's skipped 00:01-01:01 on 2005-04-03: the end of the hour of 00:00:30 does not exist
q = pendulum.datetime(2005, 4, 3, 0, 0, 30, tz="America/St_Johns")  # fold=1, as create() makes it
if q.end_of("hour").isoformat() != "2005-04-02T23:59:59.999999-03:30":
    bad.append(f"St_Johns example: end_of('hour') of 00:00:30 = {q.end_of('hour').isoformat()}")

zones = ["Australia/Lord_Howe", "Pacific/Chatham", "America/St_Johns", "Europe/Paris", "Asia/Kathmandu"]
for zone in zones:
    z = ZoneInfo(zone)
    # transitions: scan the offset hour by hour
    transitions = []
    for lo, hi in ((1985, 1987), (2004, 2006), (2018, 2019)):
        t = dt.datetime(lo, 1, 1, tzinfo=UTC)
        prev = t.astimezone(z).utcoffset()
        while t.year <= hi:
            t += dt.timedelta(hours=1)
            off = t.astimezone(z).utcoffset()
            if off != prev:
                transitions.append(t)
                prev = off
    for t in transitions:
        for minutes in range(-150, 151, 5):
            for seconds in (0, 30.25):
                u = t + dt.timedelta(minutes=minutes, seconds=seconds)
                a = pendulum.instance(u).in_timezone(zone)  # fold as in_timezone() sets it
                check(a)
                # same wall time with the fold create() uses by default
                check(pendulum.datetime(a.year, a.month, a.day, a.hour, a.minute, a.second,
                                        a.microsecond, tz=zone))

if bad:
    print(f"{len(bad)} of {checked} checks failed, e.g.:")
    for b in bad[:10]:
        print("  ", b)
    sys.exit(1)
print(f"ok: {checked} start_of/end_of checks")
