"""C04 — calendar-unit arithmetic with end-of-month clamping."""
from __future__ import annotations

import ast

from .. import cfg, core
from ..core import nun, pmod, un
from ..rules import addduration as AD
from ..rules import recon

EXPLANATION = (
    "Decided statically: (1) add_duration shifts year/month, fixes the month overflow, clamps the day with the "
    "post-overflow year/month, installs them with replace() and only then adds the timedelta (weeks folded x7); "
    "(2) DateTime.add's calendar branch re-creates the wall time through create(tz=self.tz); Date.add rebuilds "
    "both ways without loss; (3) subtract() negates every unit (DateTime and Date); (4) for every kind of "
    "operand the `- delta` helper passes subtract() exactly the components the `+ delta` helper passes add() "
    "(so dt - d == dt + (-d) == dt.subtract(d's components)); each Duration arm covers all components; "
    "(5) Duration.__neg__ negates each stored component once and _signature records every constructor "
    "argument; (6) every constructor in the Duration hierarchy that does not chain to Duration.__new__ sets "
    "the private attributes the operator helpers read. NOT decided: the clamp table values (C15), "
    "normalisation in gaps/overlaps (C02)."
    ' Also: the DAYS_PER_MONTHS rows / is_leap rule the clamp relies on, and the weeks/remaining_days breakdown of Duration.__new__ that `+ Duration` consumes.'
    ' As built: ADD.tabulated and SHIFT.tabulated (see C03) decide add_duration and DateTime.add/Date.add on values; the operand-kind arms of + and - are read off function leaves.'
)

COMP = {  # add()/subtract() parameter -> Duration accessor
    "years": "years", "months": "months", "weeks": "weeks", "days": "remaining_days", "hours": "hours",
    "minutes": "minutes", "seconds": "remaining_seconds", "microseconds": "microseconds",
}
SUPER = {"pendulum.Interval": "pendulum.Duration", "Interval": "Duration"}


def ladder(m: core.Mod, qual: str) -> list[tuple[str, str, dict[str, str] | str]]:
    """[(operand kind: 'pendulum.Interval' | 'pendulum.Duration' | 'plain', method called, {kw: expr} | '**expr')]: what the helper
    calls for an operand of exactly that kind, read off the leaves of the function (pvs/sem.py: the way the branches are
    written - elif ladder, early returns, a helper building the keyword mapping - does not matter); arguments equal to the
    0 default of add()/subtract() are left out."""
    from .. import sem
    fn = m.func(qual)
    dp = core.params(fn)[0]
    try:
        arms = sem.call_arms(m, qual)
    except sem.Giveup as e:
        raise core.Unsupported(f"{qual}: {e}")
    out = []
    for kind, assign in (("pendulum.Interval", {"Interval": True, "Duration": True}), ("pendulum.Duration", {"Interval": False, "Duration": True}),
                         ("plain", {"Interval": False, "Duration": False})):
        want = {f"isinstance({dp}, {c})": v for c, v in assign.items()}
        # the negated operand is of the operand's class (timedelta.__neg__; Duration.__neg__ / Interval.__neg__ build self.__class__)
        want.update({f"isinstance(-1*{dp}, {c})": v for c, v in assign.items()})
        hit = [a for a in arms if sem.conds_compatible(a[0], want)]
        if not hit:
            continue
        if len(hit) > 1:
            raise core.Unsupported(f"{qual}: {len(hit)} outcomes for a {kind} operand (conditions other than the operand's class)")
        _, callee, kws, star = hit[0]
        kws = {k: v for k, v in kws.items() if v != "0"}
        if star is not None and not kws:
            args: dict[str, str] | str = "**" + star
        else:
            args = dict(kws)
            if star is not None:
                args["**"] = star
        out.append((kind, callee, args))
    return out


def _arm_for(lad, klass: str):
    k = klass
    while k:
        for a in lad:
            if a[0] == k:
                return a
        k = SUPER.get(k, "")
    for a in lad:
        if a[0] == "plain":
            return a
    return None


def _siblings(ctx, m: core.Mod, cls: str, addq: str, subq: str, units: list[str]) -> None:
    try:
        la, ls = ladder(m, f"{cls}.{addq}"), ladder(m, f"{cls}.{subq}")
    except core.Unsupported as e:
        ctx.unverified("SIBLING.arms", f"{cls}.{subq}", str(e), m.loc(m.func(f"{cls}.{subq}")))
        return
    dp = core.params(m.func(f"{cls}.{addq}"))[0]
    kinds = ["pendulum.Interval", "pendulum.Duration", "plain"]
    for k in kinds:
        a, s = _arm_for(la, k), _arm_for(ls, k)
        if a is None or s is None:
            ctx.ob("SIBLING.arms", f"{cls}.{subq}/{k}", False, f"no arm handles {k} (add: {a}, subtract: {s})",
                   m.loc(m.func(f"{cls}.{subq}")))
            continue
        name = k.split(".")[-1]
        ctx.ob("SIBLING.method", f"{cls}.{addq}/{name}-arm", a[1] == "self.add", f"calls {a[1]}", m.loc(m.func(f"{cls}.{addq}")),
               nontrivial=False)
        ctx.ob("SIBLING.method", f"{cls}.{subq}/{name}-arm", s[1] == "self.subtract",
               f"calls {s[1]}; the `-` helper must go through subtract()", m.loc(m.func(f"{cls}.{subq}")))
        ctx.ob("SIBLING.arms", f"{cls}.{subq}/{name}-arm", a[2] == s[2],
               f"for a {name} operand `+` passes add({a[2]}) but `-` passes subtract({s[2]}); they must take the "
               f"same components so that dt - d == dt + (-d) == dt.subtract(<d's components>)",
               m.loc(m.func(f"{cls}.{subq}")))
        # component completeness of each arm
        for which, arm, q in (("add", a, addq), ("sub", s, subq)):
            if k == "plain":
                continue
            args = arm[2]
            if isinstance(args, str):
                ok = args == f"**{dp}._signature" and k != "pendulum.Interval"
                ctx.ob("SIBLING.components", f"{cls}.{q}/{name}-arm", ok,
                       f"passes {args}" + ("; an Interval's calendar components live in its PreciseDiff, not in "
                                           "_signature" if k == "pendulum.Interval" else ""),
                       m.loc(m.func(f"{cls}.{q}")))
            else:
                want = {u: f"{dp}.{COMP[u]}" for u in units}
                ctx.ob("SIBLING.components", f"{cls}.{q}/{name}-arm", args == want,
                       f"passes {args}; a {name}'s components are {want}", m.loc(m.func(f"{cls}.{q}")))


def _neg_and_signature(ctx) -> None:
    m = pmod("duration")
    neg = m.func("Duration.__neg__")
    r = core.returns(neg)
    if len(r) != 1 or not isinstance(r[0].value, ast.Call):
        ctx.unverified("NEG.components", "Duration.__neg__", "unrecognised form", m.loc(neg))
    else:
        c = r[0].value
        k = {a: nun(v) for a, v in core.kw(c).items()}
        full = {"years": "-self._years", "months": "-self._months", "weeks": "-self._weeks",
                "days": "-self._remaining_days", "seconds": "-self._seconds", "microseconds": "-self._microseconds"}
        alt = {"years": "-self._years", "months": "-self._months", "days": "-self._days",
               "seconds": "-self._seconds", "microseconds": "-self._microseconds"}
        ok = nun(c.func) == "self.__class__" and not c.args and k in (full, alt)
        ctx.ob("NEG.components", "Duration.__neg__", ok,
               f"__neg__ builds {nun(c.func)}({k}); every stored component (years, months, weeks+remaining days, "
               f"seconds, microseconds) must be negated exactly once", m.loc(c))
    new = m.func("Duration.__new__")
    sig = None
    for n in core.walk_fn(new):
        if isinstance(n, ast.Assign) and nun(n.targets[0]) == "self._signature":
            sig = n.value
    if not isinstance(sig, ast.Dict):
        ctx.unverified("SIGNATURE", "Duration.__new__", "_signature dict literal not found", m.loc(new))
        return
    got = {nun(k_): nun(v) for k_, v in zip(sig.keys, sig.values)}
    want = {repr(u): u for u in AD.ADD_PARAMS}
    us = got.pop("'microseconds'", None)
    want.pop("'microseconds'")
    ctx.ob("SIGNATURE", "Duration._signature/units", got == want,
           f"_signature = {got}; must record every add() unit under its own constructor argument", m.loc(sig))
    ctx.ob("SIGNATURE", "Duration._signature/microseconds",
           us in ("microseconds + milliseconds * 1000", "milliseconds * 1000 + microseconds"),
           f"microseconds entry is `{us}`; add() has no milliseconds parameter, so it must be "
           f"microseconds + milliseconds * 1000", m.loc(sig))


def _init_complete(ctx) -> None:
    """Private attributes read from a Duration operand by the DateTime/Date helpers
    must be assigned by every __new__ that does not chain to Duration.__new__."""
    dm = pmod("duration")
    readers = [(pmod("datetime"), "DateTime._add_timedelta_"), (pmod("datetime"), "DateTime._subtract_timedelta"),
               (pmod("date"), "Date._add_timedelta"), (pmod("date"), "Date._subtract_timedelta")]
    private: set[str] = set()
    for m, q in readers:
        fn = m.func(q)
        dp = core.params(fn)[0]
        for n in core.walk_fn(fn):
            if isinstance(n, ast.Attribute) and nun(n.value) == dp and n.attr.startswith("_") and not n.attr.startswith("__"):
                private.add(n.attr)
        try:        # ... and the ones a helper of the function reads for it (seen in the outcomes of the function)
            import re as _re
            for _, _, args in ladder(m, q):
                for txt in ([args] if isinstance(args, str) else args.values()):
                    private.update(_re.findall(rf"\b{dp}\.(_[A-Za-z]\w*)", txt))
        except core.Unsupported:
            pass
    ctx.count("private_attrs_read", len(private))
    for cls, home in (("Duration", dm), ("AbsoluteDuration", dm), ("Interval", pmod("interval"))):
        if "__new__" not in home.methods(cls):
            continue
        new = home.methods(cls)["__new__"]
        chains = any(nun(c.func) in ("super().__new__", "Duration.__new__") for c in core.calls(new))
        assigned = {n.targets[0].attr for n in core.walk_fn(new)
                    if isinstance(n, ast.Assign) and isinstance(n.targets[0], ast.Attribute)
                    and nun(n.targets[0].value) == "self"}
        for n in core.walk_fn(new):
            if isinstance(n, ast.Assign) and isinstance(n.targets[0], ast.Tuple):
                for e in n.targets[0].elts:
                    if isinstance(e, ast.Attribute) and nun(e.value) == "self":
                        assigned.add(e.attr)
        class_level = {t.id for st in home.cls(cls).body if isinstance(st, (ast.Assign, ast.AnnAssign))
                       for t in ([st.target] if isinstance(st, ast.AnnAssign) else st.targets) if isinstance(t, ast.Name)}
        for a in sorted(private):
            ok = chains or a in assigned
            ctx.ob("INIT-COMPLETE", f"{cls}.__new__/{a}", ok,
                   f"{cls}.__new__ {'chains to Duration.__new__' if chains else 'builds the value itself'}; "
                   f"`{a}` (read by the +/- helpers under isinstance(delta, Duration)) is "
                   f"{'set' if ok else 'never set'}" + (" (only a class-level default exists)" if a in class_level and not ok else ""),
                   home.loc(new))


def run(ctx) -> None:
    ctx.explanation = EXPLANATION
    dtm, dm = pmod("datetime"), pmod("date")
    ctx.step(AD.month_clamp_order, ctx)
    from . import C15
    ctx.step(C15.clamp_dependencies, ctx)
    from . import C09
    ctx.step(C09._duration_new, ctx)      # `+ Duration` shifts by d.years/months/weeks/remaining_days: the breakdown computed in Duration.__new__
    ctx.step(AD.carry_blocks, ctx)
    ctx.step(AD.datetime_add_shape, ctx)
    ctx.step(AD.neg_symmetry, ctx, dtm, "DateTime")
    ctx.step(AD.neg_symmetry, ctx, dm, "Date")
    # Date.add: rebuild both ways + forwarding
    fn = dm.func("Date.add")
    for c in core.calls(fn):
        if nun(c.func) == "add_duration":
            k = {a: nun(v) for a, v in core.kw(c).items()}
            ctx.ob("ADD.forward", "Date.add/add_duration", k == {p: p for p in core.params(fn)} and len(c.args) == 1,
                   f"add_duration receives {k}", dm.loc(c))
    for s in recon.sites_in(dm, ["Date.add"]):
        recon.check_site(ctx, s)
    ctx.step(_siblings, ctx, dtm, "DateTime", "_add_timedelta_", "_subtract_timedelta", AD.ADD_PARAMS)
    ctx.step(_siblings, ctx, dm, "Date", "_add_timedelta", "_subtract_timedelta", ["years", "months", "weeks", "days"])
    ctx.step(_neg_and_signature, ctx)
    ctx.step(_init_complete, ctx)
    ctx.expect_min("ORDER.clamp", 6)
    ctx.expect_min("SIBLING.arms", 6)
    ctx.expect_min("NEGSYM", 14)
    ctx.expect_min("INIT-COMPLETE", 3)
