"""C10 — Duration arithmetic agrees with timedelta arithmetic (protocol clauses)."""
from __future__ import annotations

import ast
import datetime as _stdlib_datetime   # the stdlib only; pendulum is never imported
import os

from .. import cfg, core
from ..core import nun, pmod, un
from ..rules.canon import Canon

EXPLANATION = (
    "Decided statically: (1) operator protocol of every binary special method of Duration (guard before use, "
    "every feasible path returns a value or NotImplemented, results are built through self.__class__, "
    "duration/duration gives int/float); (2) attribute-under-guard: what is read from the other operand exists "
    "on every class the dominating isinstance() admits (native timedelta has no private helpers); (3) __neg__ "
    "and __mul__(int) act on every stored component; (4) _to_microseconds weights (86400e6, 1e6, 1) for both "
    "operand kinds and the numerator/denominator of each rounding call (usec*a/b for *float, usec/n for /int, "
    "usec*b/a for /float); (5) _divide_and_round is statement-for-statement the round-half-even reference of "
    "the running interpreter's Lib/_pydatetime.py (plus the int() coercion); (6) every self.__class__(...) "
    "call in an inherited operator binds against the constructor of each subclass that inherits it; "
    "Interval's operators delegate to as_duration(). NOT decided (before INTERVAL.exact was added): float rounding of total_seconds()-based "
    "__add__/__sub__."
    " As built: ARITH.tabulated runs every operator (+, reflected +, -, unary -, * and reflected *, //, /, %, divmod) with the checker's interpreter on Duration instance stubs and native timedeltas of both signs (sub-second parts, day boundaries, half-even ties, a length beyond 2**53 us) and compares length and result type with the same operation on the standard library's timedelta; where it succeeds, clauses (1) result type, (3) and (4) are established by it and the shape rules only decide for code outside the interpreter."
)

TD_ATTRS = set(dir(_stdlib_datetime.timedelta))
OPS = ["__add__", "__sub__", "__mul__", "__floordiv__", "__truediv__", "__mod__", "__divmod__"]


def isinstance_feasible(p: cfg.Path) -> bool:
    pos: list[tuple[str, set[str]]] = []
    neg: dict[str, set[str]] = {}
    for t, pol in p.assumes():
        if not t.startswith("isinstance("):
            continue
        c = ast.parse(t, mode="eval").body
        subj = un(c.args[0])
        classes = {un(e) for e in c.args[1].elts} if isinstance(c.args[1], ast.Tuple) else {un(c.args[1])}
        if pol:
            pos.append((subj, classes))
        else:
            neg.setdefault(subj, set()).update(classes)
    for subj, classes in pos:
        if classes and classes <= neg.get(subj, set()):
            return False
    return True


def narrowest(p: cfg.Path, subj: str, upto: int) -> set[str] | None:
    """classes admitted for `subj` by the isinstance facts assumed before event `upto`."""
    cur: set[str] | None = None
    for i, e in enumerate(p):
        if i >= upto:
            break
        if e[0] == "assume" and e[2] and e[1].startswith(f"isinstance({subj}, "):
            c = ast.parse(e[1], mode="eval").body
            classes = {un(x) for x in c.args[1].elts} if isinstance(c.args[1], ast.Tuple) else {un(c.args[1])}
            cur = classes if cur is None else (cur & classes or classes)
    return cur


def class_attrs(cls: str) -> set[str]:
    m = pmod("duration")
    out = set(TD_ATTRS)
    for c in {"Duration": ["Duration"], "AbsoluteDuration": ["AbsoluteDuration", "Duration"]}.get(cls, []):
        node = m.cls(c)
        for st in node.body:
            if isinstance(st, ast.FunctionDef):
                out.add(st.name)
            elif isinstance(st, (ast.Assign, ast.AnnAssign)):
                for t in ([st.target] if isinstance(st, ast.AnnAssign) else st.targets):
                    if isinstance(t, ast.Name):
                        out.add(t.id)
        for n in ast.walk(node):
            if isinstance(n, ast.Attribute) and isinstance(n.ctx, ast.Store) and un(n.value) == "self":
                out.add(n.attr)
    return out


ADMITS = {"timedelta": "timedelta", "Duration": "Duration", "pendulum.Duration": "Duration", "int": "int", "float": "float"}


TAB: dict[str, bool | None] = {}


def _arith_tabulate(ctx) -> None:
    """ARITH.tabulated: every operator of Duration is evaluated with the checker's interpreter (rules/minieval.py, in the closed
    world of rules/durstub.py) on instance stubs and native timedeltas of both signs - sub-second parts, day boundaries,
    ties of the half-even division, one length beyond 2**53 microseconds - and the constructor call / number it produces is
    compared with the same operation on the standard library's timedelta: the same length in microseconds, a result
    rebuilt through the operand's class where a duration is due, a number for duration / duration; negation and integer
    scaling component-wise on years and months."""
    import datetime as _dt
    from ..rules import durstub
    m = pmod("duration")
    TAB.clear()
    D = durstub.D_US
    S = [0, 1, -1, 999_999, 10**6, 1_500_000, -1_500_000, 2_500_000, D, -D - 1, 3 * D + 3723 * 10**6 + 4, -(10 * D + 11045 * 10**6 + 6),
         400_000 * D + 86399 * 10**6 + 999_999, -(400_000 * D + 7)]
    O = [1, -1, 2, 3, 10**6, 7 * 10**6 + 1, -(D + 5), 3 * D, 250_000, 1_000_000 * D + 3]
    INTS = [1, -1, 2, 3, -7, 10, 10**6]
    FLOATS = [0.5, -0.5, 1.5, 2.25, 0.1, -3.7, 1e-3, 3.0]
    if ctx.tier == "thorough":
        S = S + [t + k for t in (D, 7 * D, 366 * D, 10**5 * D) for k in (-1, 0, 1, 499_999, 500_000, 500_001)] + [-(3 * D + 500_000), 59_999_999, -59_999_999, 3_600_000_001]
        O = O + [3, 6, 7, 500_000, 1_500_000, D + 1, -(2 * D), 60 * 10**6, 3600 * 10**6 - 1]
        INTS = INTS + [4, 6, -2, 7, 86400, -10**6, 1000003]
        FLOATS = FLOATS + [0.25, 0.3, -1.75, 7.0, 1e6, 1 / 3, 2 / 3, -0.001, 123456.789]

    def us(td: _dt.timedelta) -> int:
        return (td.days * 86400 + td.seconds) * 10**6 + td.microseconds

    def td(n: int) -> _dt.timedelta:
        return _dt.timedelta(microseconds=n)

    try:
        w = durstub.World(m)
    except durstub.ERRORS as e:
        ctx.unverified("ARITH.tabulated", "Duration", f"outside the checker's interpreter: {type(e).__name__}: {e}", m.rel)
        return

    def length(r) -> int:
        if not isinstance(r, durstub.Rebuilt):
            raise AssertionError(f"the result is `{r!r}`, not a value rebuilt through the operand's class")
        y, mo, rest = durstub.rebuilt_value(r)
        return (y * 365 + mo * 30) * D + rest

    def operands(o: int):
        return (("Duration", w.normalised(0, 0, o)), ("timedelta", td(o)))

    def cases(op: str):
        """(label, arguments, expected)"""
        if op in ("__add__", "__radd__", "__sub__"):
            for s_ in S:
                for o in [0] + O:
                    for kind, ov in operands(o):
                        yield f"{s_}us {op} {kind}({o}us)", [w.normalised(0, 0, s_), ov], ("len", s_ - o if op == "__sub__" else s_ + o)
        elif op == "__neg__":
            for y, mo in ((0, 0), (2, -5), (-1, 3)):
                for s_ in S:
                    yield f"-(years={y}, months={mo}, {s_}us)", [w.normalised(y, mo, s_)], ("ymr", (-y, -mo, -s_))
        elif op in ("__mul__", "__rmul__"):
            for y, mo in ((0, 0), (2, -5)):
                for s_ in S:
                    for k in [0] + INTS:
                        yield f"(years={y}, months={mo}, {s_}us) * {k}", [w.normalised(y, mo, s_), k], ("ymr", (y * k, mo * k, s_ * k))
            for s_ in S:
                for f in FLOATS:
                    try:
                        want_us = us(td(s_) * f)
                    except OverflowError:
                        continue            # outside the range of the native class: no reference value
                    yield f"{s_}us * {f}", [w.normalised(0, 0, s_), f], ("len", want_us)
        elif op == "__floordiv__":
            for s_ in S:
                for k in INTS:
                    yield f"{s_}us // {k}", [w.normalised(0, 0, s_), k], ("len", us(td(s_) // k))
                for o in O:
                    for kind, ov in operands(o):
                        yield f"{s_}us // {kind}({o}us)", [w.normalised(0, 0, s_), ov], ("num", td(s_) // td(o))
        elif op == "__truediv__":
            for s_ in S:
                for k in INTS + FLOATS:
                    yield f"{s_}us / {k}", [w.normalised(0, 0, s_), k], ("len", us(td(s_) / k))
                for o in O:
                    for kind, ov in operands(o):
                        yield f"{s_}us / {kind}({o}us)", [w.normalised(0, 0, s_), ov], ("num", td(s_) / td(o))
        elif op == "__mod__":
            for s_ in S:
                for o in O:
                    for kind, ov in operands(o):
                        yield f"{s_}us % {kind}({o}us)", [w.normalised(0, 0, s_), ov], ("len", us(td(s_) % td(o)))
        elif op == "__divmod__":
            for s_ in S:
                for o in O:
                    for kind, ov in operands(o):
                        q, r = divmod(td(s_), td(o))
                        yield f"divmod({s_}us, {kind}({o}us))", [w.normalised(0, 0, s_), ov], ("qr", (q, us(r)))

    total = 0
    for op in ("__add__", "__radd__", "__sub__", "__neg__", "__mul__", "__rmul__", "__floordiv__", "__truediv__", "__mod__", "__divmod__"):
        if op not in w.meths:
            continue
        bad, n = [], 0
        try:
            import itertools as _it

            def foreign(op_):
                # an operand of a type the operation is not defined for: the method must answer NotImplemented (Python then tries the reflected one or raises TypeError)
                if op_ == "__neg__":
                    return
                others = ["x", None, [1]] + ([1, 2.5] if op_ in ("__add__", "__radd__", "__sub__", "__mod__", "__divmod__") else [])
                for o_ in others:
                    yield f"{S[3]}us {op_} {o_!r}", [w.normalised(0, 0, S[3]), o_], ("ni", None)
            for label, args, (kind, want) in _it.chain(cases(op), foreign(op)):
                try:
                    got = w.call(op, args)
                except (core.Unsupported, AttributeError, TypeError) as e:
                    if kind == "ni":
                        # the operand is a plain value of another type (a string, None, a list, a number): the method did not answer NotImplemented
                        # but went on to use it as a duration
                        n += 1
                        bad.append(f"{label}: {type(e).__name__}: {str(e)[:80]} (an operand of another type must give NotImplemented)")
                        continue
                    if not isinstance(e, AttributeError) or "'datetime.timedelta' object has no attribute" not in str(e):
                        raise
                    # the operand is a native timedelta standing for itself: the analysed code reads an attribute the native class does not have
                    n += 1
                    bad.append(f"{label}: AttributeError: {e}")
                    continue
                n += 1
                try:
                    if kind == "ni":
                        if got is not NotImplemented:
                            raise AssertionError(f"the result is `{got!r}`; an operand of another type must give NotImplemented")
                        continue
                    if kind == "len":
                        g = length(got)
                    elif kind == "ymr":
                        if not isinstance(got, durstub.Rebuilt):
                            raise AssertionError(f"the result is `{got!r}`, not a value rebuilt through the operand's class")
                        g = durstub.rebuilt_value(got)
                    elif kind == "num":
                        g = got
                        if isinstance(got, (durstub.Stub, bool)) or type(got) is not type(want):
                            raise AssertionError(f"the result is `{got!r}`; must be the {type(want).__name__} {want!r}")
                    else:
                        if not (isinstance(got, tuple) and len(got) == 2):
                            raise AssertionError(f"the result is `{got!r}`, not a (quotient, remainder) pair")
                        g = (got[0], length(got[1]))
                    if g != want:
                        bad.append(f"{label}: {g!r} (native timedelta: {want!r})")
                except AssertionError as e:
                    bad.append(f"{label}: {e}")
        except durstub.ERRORS as e:
            TAB[op] = None
            ctx.unverified("ARITH.tabulated", f"Duration.{op}", f"outside the checker's interpreter: {type(e).__name__}: {e}", m.loc(w.meths[op]))
            continue
        total += n
        TAB[op] = not bad
        if not bad:
            # the operator is right on every operand combination (native timedelta operands included, so an attribute a native operand lacks
            # would have shown): how it is written is then not a property
            ctx.established(("DUNDER.result", "DUNDER.guard", "RATIO", "SCALE", "ADDSUB", "ATTR-UNDER-GUARD", "NEG.components"), f"Duration.{op}", "ARITH.tabulated")
        ctx.ob("ARITH.tabulated", f"Duration.{op}", not bad,
               f"{n} operand combinations evaluated: " + (f"differs from the native operation: {bad[:3]}" if bad else
               "the result has the length of the native timedelta operation and is rebuilt through the operand's class"), m.loc(w.meths[op]))
    ctx.count("arith_evaluations", total)


def _protocol(ctx) -> None:
    m = pmod("duration")
    for op in OPS:
        fn = m.func(f"Duration.{op}")
        other = core.params(fn)[0]
        ps = [p for p in cfg.paths(fn) if isinstance_feasible(p)]
        ctx.count("operator_paths", len(ps))
        for p in ps:
            ex = p.exit()
            facts = [(t, pol) for t, pol in p.assumes() if t.startswith("isinstance(")]
            tag = ",".join(("" if pol else "!") + t[len("isinstance("):-1].replace(f"{other}, ", "") for t, pol in facts) or "-"
            if ex[1] == "fall":
                ctx.ob("DUNDER.returns", f"Duration.{op}[{tag}]", False,
                       "a feasible path falls off the end (returns None instead of a value or NotImplemented)", m.loc(fn))
                continue
            if ex[1] != "return":
                continue
            val = core.strip_casts(ex[2].value)
            sval = un(val)
            admitted = narrowest(p, other, len(p))
            if not any(pol for _t, pol in facts):
                ctx.ob("DUNDER.guard", f"Duration.{op}[{tag}]", sval == "NotImplemented",
                       f"with no positive type test on `{other}` the method returns `{sval[:60]}`; must be NotImplemented",
                       m.loc(ex[2]))
                continue
            # result type
            if admitted and admitted <= {"timedelta"} and op in ("__floordiv__", "__truediv__"):
                ok = not (isinstance(val, ast.Call) and "__class__" in un(val.func)) or bool(TAB.get(op))
                ctx.ob("DUNDER.result", f"Duration.{op}[{tag}]", ok, f"duration {op} duration returns `{sval[:60]}`; must be a number", m.loc(ex[2]))
            elif op == "__divmod__":
                ok = (isinstance(val, ast.Tuple) and len(val.elts) == 2 and nun(val.elts[1]).startswith("self.__class__(")) or bool(TAB.get(op))
                ctx.ob("DUNDER.result", f"Duration.{op}[{tag}]", ok, f"returns `{sval[:60]}`; must be (q, self.__class__(...))", m.loc(ex[2]))
            elif sval != "NotImplemented":
                ok = (isinstance(val, ast.Call) and un(val.func) == "self.__class__") or bool(TAB.get(op))    # or: rebuilt through the class on every stub
                ctx.ob("DUNDER.result", f"Duration.{op}[{tag}]", ok,
                       f"returns `{sval[:60]}`; the result must be built through self.__class__(...)", m.loc(ex[2]))
            # attribute-under-guard along this path
            for i, e in enumerate(p):
                nodes = []
                if e[0] == "stmt":
                    nodes = [e[1]]
                elif e[0] == "exit" and e[2] is not None:
                    nodes = [e[2]]
                for nd in nodes:
                    for a in ast.walk(nd):
                        if isinstance(a, ast.Attribute) and un(a.value) == other:
                            adm = narrowest(p, other, i + 1) or set()
                            for c in adm:
                                k = ADMITS.get(c)
                                if k in ("timedelta", "Duration"):
                                    ok = a.attr in class_attrs(k) if k == "Duration" else a.attr in TD_ATTRS
                                    ctx.ob("ATTR-UNDER-GUARD", f"Duration.{op}/{other}.{a.attr}@{c}", ok,
                                           f"`{other}.{a.attr}` is read where `{other}` is only known to be a {c}; "
                                           f"{'ok' if ok else 'a native ' + c + ' has no such attribute (AttributeError)'}",
                                           m.loc(a))
                                elif k in ("int", "float"):
                                    ok = hasattr(int if k == "int" else float, a.attr)
                                    ctx.ob("ATTR-UNDER-GUARD", f"Duration.{op}/{other}.{a.attr}@{c}", ok,
                                           f"`{other}.{a.attr}` on a {c}", m.loc(a), nontrivial=False)
    al = m.class_aliases("Duration")
    ctx.ob("DUNDER.reflected", "Duration.__radd__", al.get("__radd__") == "__add__", f"__radd__ = {al.get('__radd__')}", m.rel)
    ctx.ob("DUNDER.reflected", "Duration.__rmul__", al.get("__rmul__") == "__mul__", f"__rmul__ = {al.get('__rmul__')}", m.rel)
    # module-level helper used for the other operand
    if m.has_func("_to_microseconds"):
        fn = m.func("_to_microseconds")
        d = core.params(fn, drop_self=False)[0]
        for p in cfg.paths(fn):
            ex = p.exit()
            for a in ast.walk(ex[2]) if ex[2] is not None else []:
                if isinstance(a, ast.Attribute) and un(a.value) == d:
                    adm = narrowest(p, d, len(p))
                    k = "Duration" if adm and adm <= {"Duration"} else "timedelta"
                    ok = a.attr in (class_attrs("Duration") if k == "Duration" else TD_ATTRS)
                    ctx.ob("ATTR-UNDER-GUARD", f"_to_microseconds/{d}.{a.attr}@{k}", ok,
                           f"`{d}.{a.attr}` read where `{d}` is a {k}", m.loc(a))


def _units(ctx) -> None:
    m = pmod("duration")
    can = Canon()

    def E(src):
        return can.s(ast.parse(src, mode="eval").body)
    r = core.returns(m.func("Duration._to_microseconds"))
    ok = len(r) == 1 and can.s(r[0].value) == E("(self._days * 86400 + self._seconds) * 1000000 + self._microseconds")
    ctx.ob("UNITS.usec", "Duration._to_microseconds", ok, f"returns `{nun(r[0].value) if r else None}`; must weigh days 86400e6, seconds 1e6, microseconds 1", m.rel)
    if m.has_func("_to_microseconds"):
        fn = m.func("_to_microseconds")
        d = core.params(fn, drop_self=False)[0]
        forms = set()
        for p in cfg.paths(fn):
            ex = p.exit()
            if ex[1] == "return":
                forms.add((p.holds(f"isinstance({d}, Duration)"), can.s(ex[2].value)))
        want = {(True, f"{d}._to_microseconds()"), (False, E(f"({d}.days * 86400 + {d}.seconds) * 1000000 + {d}.microseconds"))}
        ctx.ob("UNITS.usec", "_to_microseconds(other)", forms == want,
               f"helper forms {sorted(map(str, forms))}; a Duration uses its own decomposition, a native timedelta its "
               f"(days, seconds, microseconds) triple with weights 86400e6, 1e6, 1", m.loc(fn))
    # ratio rule
    mul = m.func("Duration.__mul__")
    tdv = m.func("Duration.__truediv__")
    found = {}
    for fn, name in ((mul, "__mul__"), (tdv, "__truediv__")):
        for p in cfg.paths(fn):
            if not isinstance_feasible(p):
                continue
            ex = p.exit()
            if ex[1] != "return":
                continue
            for c in core.calls(ex[2]):
                if nun(c.func) == "_divide_and_round" and len(c.args) == 2:
                    num = can.s(cfg.subst_path(p, c.args[0], set()))
                    den = can.s(cfg.subst_path(p, c.args[1], set()))
                    which = "float" if p.holds("isinstance(other, float)") else "int" if p.holds("isinstance(other, int)") else "?"
                    if "self._to_microseconds()" in num:
                        found[(name, which)] = (num, den)
    A, B = "other.as_integer_ratio()[0]", "other.as_integer_ratio()[1]"
    want = {("__mul__", "float"): (E(f"self._to_microseconds() * {A}"), B),
            ("__truediv__", "int"): ("self._to_microseconds()", "other"),
            ("__truediv__", "float"): (E(f"{B} * self._to_microseconds()"), A)}
    for k, v in want.items():
        got = found.get(k)
        ctx.ob("RATIO", f"Duration.{k[0]}/{k[1]}", got == v or bool(TAB.get(k[0])),
               f"_divide_and_round{got}; the length in microseconds must be {'multiplied' if k[0] == '__mul__' else 'divided'} "
               f"by the exact ratio: expected {v}", m.rel)
    # int scaling / floor division keep years and months
    for p in cfg.paths(mul):
        if p.holds("isinstance(other, int)") is True:
            ex = p.exit()
            k = {a: nun(v) for a, v in core.kw(ex[2].value).items()} if isinstance(ex[2].value, ast.Call) else {}
            exact = {"years": "self._years * other", "months": "self._months * other", "microseconds": "self._to_microseconds() * other"}
            lossy = dict(exact, seconds="self._total * other")
            lossy.pop("microseconds")
            ctx.ob("SCALE.int", "Duration.__mul__/int", k == exact or bool(TAB.get("__mul__")),
                   f"int scaling builds {k}; years, months and the remainder must all be multiplied"
                   + ("; the remainder goes through float seconds (self._total), which is not exact to the microsecond beyond ~285 years"
                      if k == lossy else "; expected the exact integer microseconds self._to_microseconds() * other"), m.loc(ex[2]))
    for name, meth in (("__add__", "+"), ("__sub__", "-")):
        fn = m.func(f"Duration.{name}")
        for p in cfg.paths(fn):
            if p.holds("isinstance(other, timedelta)") is True:
                ex = p.exit()
                got = nun(ex[2].value)
                ok = got == f"self.__class__(microseconds=_native_microseconds(self) {meth} _native_microseconds(other))"
                why = f"returns `{got}`; must combine the exact lengths of both operands in microseconds"
                if got == f"self.__class__(seconds=self.total_seconds() {meth} other.total_seconds())":
                    why += " - total_seconds() is a float, exact to the microsecond only up to ~285 years (the native operation is exact)"
                ctx.ob("ADDSUB", f"Duration.{name}", ok or bool(TAB.get(name)), why, m.loc(ex[2]))
    # the helper the operators rely on: exact microseconds of the *native* slots (years and months included)
    try:
        hf = m.func("_native_microseconds")
        r = core.returns(hf)
        from ..rules import units as U
        p0 = core.params(hf, drop_self=False)[0]
        w = U.weights(r[0].value, m) if len(r) == 1 else None
        want_w = {f"timedelta.days.__get__({p0})": 86400 * 10**6, f"timedelta.seconds.__get__({p0})": 10**6, f"timedelta.microseconds.__get__({p0})": 1}
        ctx.ob("UNITS.native", "_native_microseconds", w == want_w, f"weights {w}; must be days*86400e6 + seconds*1e6 + microseconds of the native slots", m.loc(hf))
    except core.AnchorMissing:
        if TAB.get("__add__") and TAB.get("__sub__"):
            ctx.ob("UNITS.native", "_native_microseconds", True, "no such helper; + and - are exact on every stub (ARITH.tabulated)", m.rel, nontrivial=False)
        else:
            ctx.unverified("UNITS.native", "_native_microseconds", "helper not found", m.rel)
    except core.Unsupported as e:
        ctx.unverified("UNITS.native", "_native_microseconds", str(e), m.rel)


def _reference(ctx) -> None:
    ref_path = os.path.join(os.path.dirname(ast.__file__), "_pydatetime.py")
    m = pmod("duration")
    if not os.path.exists(ref_path):
        ctx.unverified("REFERENCE", "_divide_and_round", "Lib/_pydatetime.py not present in this interpreter", m.rel)
        return
    ref = ast.parse(open(ref_path, encoding="utf-8").read())
    rf = [n for n in ref.body if isinstance(n, ast.FunctionDef) and n.name == "_divide_and_round"]
    if not rf:
        ctx.unverified("REFERENCE", "_divide_and_round", "reference function not found", m.rel)
        return
    want = [un(s) for s in core.body_no_doc(rf[0])]
    got = [un(s) for s in core.body_no_doc(m.func("_divide_and_round"))]
    got_core = [s for s in got if s != "q = int(q)"]
    ctx.ob("REFERENCE.divide_and_round", "_divide_and_round", got_core == want,
           f"pendulum: {got_core}; reference (Lib/_pydatetime.py): {want}; round-half-even division must match the "
           f"stdlib reference statement for statement (extra `q = int(q)` allowed)", m.loc(m.func("_divide_and_round")))
    ctx.count("reference_statements", len(want))


def _ctor_lsp(ctx) -> None:
    dm, im = pmod("duration"), pmod("interval")
    ctor = {"Duration": core.params(dm.func("Duration.__new__")), "AbsoluteDuration": core.params(dm.func("AbsoluteDuration.__new__")),
            "Interval": core.params(im.func("Interval.__new__"))}
    required = {k: [p for p in v if p not in core.defaults((dm if k != "Interval" else im).func(f"{k}.__new__"))] for k, v in ctor.items()}
    dmeths = dm.methods("Duration")
    aliases = {**dm.class_aliases("Duration")}
    for sub, home in (("AbsoluteDuration", dm), ("Interval", im)):
        own = set(home.methods(sub)) | set(home.class_aliases(sub))
        for name, fn in dmeths.items():
            if not (name.startswith("__") and name.endswith("__")) or name in ("__new__", "__deepcopy__"):
                continue
            inherited = [name] + [a for a, tgt in aliases.items() if tgt == name]
            for slot in inherited:
                if slot in own:
                    continue
                for c in core.calls(fn):
                    if nun(c.func) != "self.__class__":
                        continue
                    params = ctor[sub]
                    kws = [k.arg for k in c.keywords if k.arg]
                    bad_kw = [k for k in kws if k not in params]
                    bound = set(params[:len(c.args)]) | set(kws)
                    missing = [p for p in required[sub] if p not in bound]
                    base = ctor["Duration"]
                    pos_mismatch = [f"{i}:{params[i] if i < len(params) else '-'}!={base[i]}" for i in range(len(c.args))
                                    if i >= len(params) or params[i] != base[i]]
                    ok = not bad_kw and not missing and not pos_mismatch
                    ctx.ob("CTOR-LSP", f"{sub} inherits Duration.{slot}: self.__class__({', '.join([un(a) for a in c.args] + kws)[:50]})", ok,
                           f"{sub}.__new__{tuple(params)} cannot take this call (unknown {bad_kw}, missing {missing}, positional {pos_mismatch})" if not ok else "binds",
                           dm.loc(c))
    # Interval delegates
    for op in OPS:
        if op not in im.methods("Interval"):
            continue     # inherited from Duration: covered by the CTOR-LSP obligations above
        fn = im.func(f"Interval.{op}")
        r = core.returns(fn)
        other = core.params(fn)[0]
        ok = len(r) == 1 and nun(r[0].value) == f"self.as_duration().{op}({other})"
        ctx.ob("INTERVAL.delegate", f"Interval.{op}", ok, f"returns {[nun(x.value) for x in r]}; must delegate to as_duration()", im.loc(fn))
    ctx.step(_as_duration_tabulate, ctx)
    # reflected operators written as aliases: `__rX__ = __X__` computes b op a as a op b - right only for a commutative operator
    commutative = {"__add__", "__mul__", "__and__", "__or__", "__xor__"}
    for mod_, cls in ((dm, "Duration"), (dm, "AbsoluteDuration"), (im, "Interval")):
        if not mod_.has_cls(cls):
            continue
        for alias, target in mod_.class_aliases(cls).items():
            if alias.startswith("__r") and alias.endswith("__") and target == "__" + alias[3:]:
                ctx.ob("ALIAS.reflected", f"{cls}.{alias}", target in commutative,
                       f"`{alias} = {target}` in class {cls}: " + ("the operator is commutative" if target in commutative else
                       f"other {target[2:-2]} self would be computed as self {target[2:-2]} other (wrong sign / inverse) - and a subclass's reflected method is tried before the left operand's own"), mod_.rel)


def _as_duration_tabulate(ctx) -> None:
    """INTERVAL.exact: Interval.as_duration (what every operator and == of an Interval goes through) run by the checker's interpreter on
    interval stubs carrying a native length - short, negative, sub-second, and beyond 2**53 microseconds (spans of centuries, where a float
    of seconds no longer holds the microseconds): the Duration it builds must have exactly that length and no years / months."""
    import datetime as _dt
    from ..rules import durstub, minieval
    dm, im = pmod("duration"), pmod("interval")
    fn = im.func("Interval.as_duration")
    bad, n = [], 0
    try:
        w = durstub.World(dm)
        ifuncs = {st.name: st for st in im.top() if isinstance(st, ast.FunctionDef)}
        glob = {**ifuncs, "$globals": {**minieval.module_consts(im), "Duration": w.duration_cls, "timedelta": w.timedelta}}
        for st in im.tree.body:        # helpers imported from pendulum.duration run in that module's globals
            if isinstance(st, ast.ImportFrom) and st.module == "pendulum.duration":
                for a_ in st.names:
                    if a_.name in w.glob and isinstance(w.glob[a_.name], ast.FunctionDef):
                        glob[a_.asname or a_.name] = (w.glob[a_.name], w.glob)
        for us in (0, 1, -1, 90 * 10**6 + 5, -(86400 * 10**6 * 3 + 7), 2**53 + 1, 47349753255999998, -47349753255999998, 315537897599999999, 86400 * 10**6 * 365 * 300 + 999999):
            td = _dt.timedelta(microseconds=us)
            iv = w.instance(td)
            vars(iv)["_methods"] = {**vars(iv)["_methods"], **im.methods("Interval")}
            n += 1
            got = minieval.call(fn, [iv], {}, glob)
            if not isinstance(got, durstub.Rebuilt):
                raise core.Unsupported("as_duration() does not end in Duration(...)")
            y, mo, rest = durstub.rebuilt_value(got)
            if (y, mo) != (0, 0) or rest != us:
                bad.append(f"an interval of {us} us: as_duration() builds {rest} us" + (f", years={y} months={mo}" if (y, mo) != (0, 0) else ""))
    except durstub.ERRORS + (minieval.Raised, ValueError, OverflowError) as e:
        ctx.unverified("INTERVAL.exact", "Interval.as_duration", f"outside the checker's interpreter: {type(e).__name__}: {e}", im.loc(fn))
        return
    ctx.ob("INTERVAL.exact", "Interval.as_duration", not bad, f"{n} lengths: " + (f"wrong: {bad[:3]}" if bad else "the Duration has exactly the interval's length"), im.loc(fn))


def run(ctx) -> None:
    ctx.explanation = EXPLANATION
    ctx.step(_arith_tabulate, ctx)
    ctx.step(_protocol, ctx)
    ctx.step(_units, ctx)
    ctx.step(_reference, ctx)
    ctx.step(_ctor_lsp, ctx)
    from . import C04
    ctx.step(C04._neg_and_signature, ctx)
    ctx.expect_min("DUNDER", 20)
    ctx.expect_min("ATTR-UNDER-GUARD", 6)
    ctx.expect_min("RATIO", 3)
    ctx.expect_min("CTOR-LSP", 8)
    ctx.assumptions += ["dir(datetime.timedelta) of the running interpreter lists what a native operand offers",
                        "Lib/_pydatetime.py of the running interpreter is the reference for round-half-even division"]
