"""The nl locale must provide translations.week_data (as every other locale
does), so that the locale-dependent 'e' / 'eo' tokens work with locale='nl'.
Expected values: weeks start on Monday in the Netherlands (CLDR firstDay=mon),
so 'e' is date.weekday() and 'eo' the ordinal of weekday()+1."""
import datetime
import sys

import pendulum

from pendulum.locales.locale import Locale

failures = []

nl = Locale.load("nl")
want = {"min_days": 1, "first_day": 0, "weekend_start": 5, "weekend_end": 6}
got = nl.get("translations.week_data")
if got != want:
    failures.append(f"translations.week_data = {got!r}, expected {want!r}")
if nl.get("translations.day_periods.week_data") is not None:
    failures.append("week_data still nested inside day_periods")
periods = nl.get("translations.day_periods")
if not isinstance(periods, dict) or not all(isinstance(v, str) for v in periods.values()):
    failures.append(f"day_periods must only map names to strings: {periods!r}")
if periods.get("am") != "a.m." or periods.get("pm") != "p.m.":
    failures.append("day_periods am/pm changed")

for day in range(1, 15):  # two whole weeks of August 2016
    d = datetime.date(2016, 8, day)
    dt = pendulum.datetime(2016, 8, day, 13, 30)
    for token, expected in (("e", str(d.weekday())), ("eo", nl.ordinalize(d.weekday() + 1))):
        try:
            out = dt.format(token, locale="nl")
        except Exception as e:
            failures.append(f"{d} format({token!r}, locale='nl') raised {e!r}")
            continue
        if out != expected:
            failures.append(f"{d} format({token!r}, locale='nl') = {out!r}, expected {expected!r}")

# other nl formatting is unaffected
dt = pendulum.datetime(2016, 8, 28, 13, 30)
if dt.format("dddd D MMMM YYYY A", locale="nl") != "zondag 28 augustus 2016 p.m.":
    failures.append("nl formatting changed: " + dt.format("dddd D MMMM YYYY A", locale="nl"))

for f in failures[:20]:
    print("FAIL", f)
print("failures:", len(failures))
sys.exit(1 if failures else 0)
