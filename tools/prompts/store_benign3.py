import json, subprocess, glob, os, shutil, tempfile
# where the first evaluation raised an alarm under another property than the one the refactoring was written for
extra = {"C01-s1":["C02"],"C02-s2":["C11","C17","C13"],"C05-s1":["C09"],"C06-s2":["C15"],"C11-s1":["C20"],"C07-s1":["C17"],"C13-s1":["C17"],"C13-s2":["C17","C07"],"C17-s1":["C07","C13"],"C17-s2":["C13","C07"],"C15-s1":["C08"],"C18-s2":["C08"],"C08-s1":["C07"],"C08-s2":["C18"],"C14-s2":["C05","C19"],"C19-s1":["C05","C06","C14"],"C10-s1":["C09"],"C09-s1":["C10","C18"],"C04-s2":["C03","C06","C11"],"C03-s1":["C04","C19"],"C04-s1":["C03","C19"]}
first = {"C01-s1":"C02 exit 2 (Timezone.datetime hoisted into the base class)","C01-s2":"C01 ZONE.resolve (loop over a table of tzinfo kinds)","C02-s2":"C02/C11 FUNNEL.parse, C17 LADDER.exhaustive (converters in a table)",
         "C05-s1":"C05/C09 UNITS.total (total_* through a class table)","C06-s2":"C15 FORMULA.day_number / SIBLING.day_number (month term as a table, both back ends)","C08-s2":"C08 exit 2 (named functions as table entries)",
         "C11-s1":"C20 DUNDER.aware (awareness test written differently)","C15-s1":"C15 SIBLING.local_time (three loops merged into a helper, array map)","C15-s2":"C15 DELEGATE (getters through the helpers)",
         "C16-s1":"C16 CLONE.shape (next() over a generator, outside the interpreter)"}
n=0
for d in sorted(glob.glob('/tmp/wt/T[0-9][0-9]/out/[0-9]*/')):
    pid = "C"+d.split('/')[3][1:]; k=d.split('/')[5]
    bid = f"{pid}-s{k}"
    tmp = tempfile.mkdtemp(prefix="pvs-store-")
    try:
        for sub in ("src/pendulum","rust/src"):
            shutil.copytree(f"/repo/{sub}", f"{tmp}/{sub}", ignore=shutil.ignore_patterns("*.so","__pycache__"))
        subprocess.run(["git","init","-q","."],cwd=tmp); subprocess.run(["git","add","-A"],cwd=tmp); subprocess.run(["git","-c","user.email=a@b","-c","user.name=x","commit","-qm","base"],cwd=tmp)
        r = subprocess.run(["git","apply",d+"patch.diff"],capture_output=True,text=True,cwd=tmp)
        if r.returncode: print(bid,"APPLY FAILED",r.stderr[:200]); continue
        diff = subprocess.run(["git","diff"],capture_output=True,text=True,cwd=tmp).stdout
        dst=f"/verif/benign/{bid}"; os.makedirs(dst, exist_ok=True)
        open(dst+"/patch.diff","w").write(diff)
        meta = json.load(open(d+"meta.json"))
        if os.path.exists(d+"equiv.py"): shutil.copy(d+"equiv.py", dst+"/equiv.py")
        out = {"property": pid, "round": 3, "kind": meta.get("kind"), "functions": meta.get("functions"), "why_equivalent": meta.get("why_equivalent"), "env": meta.get("env") or {},
               "author": "independent sub-agent given only the property text, the earlier refactorings to avoid, and a private worktree (nothing from /verif); asked for structural behaviour-preserving refactorings, in Rust where the property names Rust code",
               "verified_by_author": meta.get("verified"), "also_run_under": extra.get(bid, []), "first_evaluation": first.get(bid, "quiet"),
               "expected": "every check stays quiet (exit 0, no VIOLATION, no ANALYSIS-ERROR); UNVERIFIED lines are acceptable"}
        json.dump(out, open(dst+"/meta.json","w"), indent=1)
        n+=1
    finally:
        shutil.rmtree(tmp, ignore_errors=True)
print("stored",n)
