import json, subprocess, glob, os, shutil, tempfile
area={"V1":("C07",["C17"]),"V2":("C13",["C17"]),"V3":("C15",["C07","C17","C06"]),"V4":("C06",["C13","C07","C17"])}
first={"V3-3":"C15 SIBLING.is_long_year (a local closure: outside the symbolic path summaries; now the MIR is evaluated block by block)"}
n=0
for d in sorted(glob.glob('/tmp/wt/V[0-9]/out/[0-9]*/')):
    v=d.split('/')[3]; k=d.split('/')[5]; pid,also=area[v]
    bid=f"{pid}-t{k}"
    tmp=tempfile.mkdtemp(prefix="pvs-store-")
    try:
        for sub in ("src/pendulum","rust/src"):
            shutil.copytree(f"/repo/{sub}", f"{tmp}/{sub}", ignore=shutil.ignore_patterns("*.so","__pycache__"))
        subprocess.run(["git","init","-q","."],cwd=tmp); subprocess.run(["git","add","-A"],cwd=tmp); subprocess.run(["git","-c","user.email=a@b","-c","user.name=x","commit","-qm","base"],cwd=tmp)
        r=subprocess.run(["git","apply",d+"patch.diff"],capture_output=True,text=True,cwd=tmp)
        if r.returncode: print(bid,"APPLY FAILED",r.stderr[:200]); continue
        diff=subprocess.run(["git","diff"],capture_output=True,text=True,cwd=tmp).stdout
        dst=f"/verif/benign/{bid}"; os.makedirs(dst,exist_ok=True)
        open(dst+"/patch.diff","w").write(diff)
        meta=json.load(open(d+"meta.json"))
        if os.path.exists(d+"equiv.py"): shutil.copy(d+"equiv.py",dst+"/equiv.py")
        out={"property":pid,"round":4,"kind":meta.get("kind"),"functions":meta.get("functions"),"why_equivalent":meta.get("why_equivalent"),"env":{},
             "author":"independent sub-agent given a list of Rust functions and a private worktree (nothing from /verif); asked for idiomatic behaviour-preserving Rust refactorings, verified with the rebuilt extension",
             "verified_by_author":meta.get("verified"),"also_run_under":also,"first_evaluation":first.get(f"{v}-{k}","quiet"),
             "expected":"every check stays quiet (exit 0, no VIOLATION, no ANALYSIS-ERROR); UNVERIFIED lines are acceptable"}
        json.dump(out,open(dst+"/meta.json","w"),indent=1); n+=1
    finally:
        shutil.rmtree(tmp,ignore_errors=True)
print("stored",n)
