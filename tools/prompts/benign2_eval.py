import json, subprocess, glob, os, shutil, tempfile, sys
from concurrent.futures import ThreadPoolExecutor
seeds = sorted(d for d in glob.glob('/tmp/wt/R*/out/[0-9]*/') if os.path.exists(d+'patch.diff') and os.path.exists(d+'meta.json'))
PROPS=[f"C{i:02d}" for i in range(1,21)]
def one(d):
    sid = "C"+d.split('/')[3][1:]+'-r'+d.split('/')[5]
    tmp = tempfile.mkdtemp(prefix="pvs-benign-")
    try:
        for sub in ("src/pendulum","rust/src","docs/docs"):
            shutil.copytree(f"/repo/{sub}", f"{tmp}/{sub}", ignore=shutil.ignore_patterns("*.so","__pycache__"))
        for f in ("rust/Cargo.toml","rust/Cargo.lock"):
            shutil.copy(f"/repo/{f}", f"{tmp}/{f}")
        if os.path.exists("/repo/rust/.cargo"): shutil.copytree("/repo/rust/.cargo", f"{tmp}/rust/.cargo")
        r = subprocess.run(["git","apply","--unsafe-paths",f"--directory={tmp}", d+"patch.diff"], capture_output=True, text=True, cwd="/")
        how="git-apply"
        if r.returncode!=0:
            r2 = subprocess.run(["patch","-p1","--fuzz=3","-s","-i",d+"patch.diff"], capture_output=True, text=True, cwd=tmp)
            how="patch-fuzz"
            if r2.returncode!=0:
                return sid, {"apply":"FAILED", "err":(r.stderr+r2.stdout)[:300]}
        out={"apply":how,"alarms":{}, "unverified":{}}
        env=dict(os.environ, PVS_NO_EVIDENCE="1", PVS_REPO=tmp, PVS_MIR_CACHE="/verif/.cache")
        for p in PROPS:
            c = subprocess.run(["/verif/check", p, "--repo", tmp], capture_output=True, text=True, env=env, cwd="/verif")
            txt=c.stdout+c.stderr
            if c.returncode!=0:
                rules=[l.strip() for l in txt.splitlines() if l.strip().startswith("rule=")]
                out["alarms"][p]={"rc":c.returncode,"rules":rules[:6],"tail":txt[-300:] if c.returncode==2 else ""}
            unv=[l for l in txt.splitlines() if l.startswith("UNVERIFIED")]
            if unv: out["unverified"][p]=len(unv)
        return sid, out
    finally:
        shutil.rmtree(tmp, ignore_errors=True)
with ThreadPoolExecutor(8) as ex: res=list(ex.map(one, seeds))
json.dump(dict(res), open('/tmp/wt/results/benign2.json','w'), indent=1)
na=sum(1 for s,o in res if o.get("alarms")); nf=sum(1 for s,o in res if o.get("apply")=="FAILED")
print("patches",len(res),"apply-failed",nf,"with-alarm",na)
for s,o in res:
    if o.get("apply")=="FAILED": print(s,"APPLY-FAILED",o["err"][:150].replace("\n"," "))
    elif o["alarms"]:
        for p,a in o["alarms"].items(): print(s,p,"rc",a["rc"],a["rules"][:3] or a["tail"][-200:].replace("\n"," "))
    elif o["unverified"]: print(s,"quiet; unverified",o["unverified"])
