#!/venv/bin/python
"""usage: suite_check.py <worktree> [ENV=VAL ...]  -- runs the repository's pinned test-suite on the worktree
(with PYTHONPATH=<worktree>/src so that the worktree's sources are imported) and reports whether every test of the
stable baseline still passes."""
import json, subprocess, sys, tempfile, os, xml.etree.ElementTree as ET
wt = os.path.abspath(sys.argv[1])
env = dict(os.environ, PYTHONPATH=os.path.join(wt, "src"))
for a in sys.argv[2:]:
    k, v = a.split("=", 1); env[k] = v
want = set(json.load(open("/root/.vp/BASELINE.json"))["stable_pass"])
out = tempfile.mktemp(suffix=".xml")
subprocess.run(["/venv/bin/python", "-m", "pytest", "-q", "-p", "no:cacheprovider", "--timeout=900",
                "--continue-on-collection-errors", f"--junitxml={out}"], cwd=wt, env=env,
               stdout=subprocess.DEVNULL, stderr=subprocess.DEVNULL)
passed = set()
for tc in ET.parse(out).getroot().iter("testcase"):
    if not any(c.tag in ("failure", "error", "skipped") for c in tc):
        passed.add(f"{tc.get('classname')}::{tc.get('name')}")
os.unlink(out)
missing = sorted(want - passed)
print(f"passed={len(passed)} baseline={len(want)} baseline_tests_now_failing={len(missing)}")
for m in missing[:30]:
    print("  NOW FAILING:", m)
sys.exit(1 if missing else 0)
