"""F1 RECON: faithful field-by-field reconstruction of temporal values.

A reconstruction site is a call to a temporal constructor / factory in which at
least three arguments are projections `<src>.<field>` of one source expression.
Obligations per site: slot fidelity, no gap, state fields (tzinfo/fold) carried
or intentionally dropped (frozen table), lossless tzinfo projection.
"""
from __future__ import annotations

import ast
from dataclasses import dataclass, field

from .. import core
from ..core import dotted, un

DATE_F = ["year", "month", "day"]
TIME_F = ["hour", "minute", "second", "microsecond"]
FIELDS = set(DATE_F + TIME_F + ["tzinfo", "tz", "timezone", "fold"])

PARAMS = {
    "DT": DATE_F + TIME_F + ["tzinfo", "fold"],
    "CREATE": DATE_F + TIME_F + ["tz", "fold", "raise_on_unknown_times"],
    "NAIVE": DATE_F + TIME_F + ["fold"],
    "DATE": DATE_F,
    "TIME": TIME_F + ["tzinfo", "fold"],
    "PTIME": TIME_F,
    "AT": TIME_F,
    "ON": DATE_F,
    "SET": DATE_F + TIME_F + ["tz"],
    "REPLACE": DATE_F + TIME_F + ["tzinfo", "fold"],
}
# what a parameter must be a projection of
PI = {p: p for p in DATE_F + TIME_F + ["tzinfo", "fold"]}
PI["tz"] = "tzinfo"

CLASS_KIND = {"DateTime": "DT", "Date": "DATE", "Time": "TIME", "FixedTimezone": "DT", "Timezone": "DT"}


@dataclass
class Site:
    mod: core.Mod
    func: str                 # qualified enclosing function
    call: ast.Call
    kind: str
    callee: str
    src: str                  # unparsed source expression
    bound: dict[str, ast.expr]
    proj: dict[str, str] = field(default_factory=dict)   # param -> projected field of src
    foreign: dict[str, tuple[str, str]] = field(default_factory=dict)   # param -> (other source, field): same-kind field taken from another value

    @property
    def key(self) -> str:
        return f"{self.func}:{self.callee}({self.src}.*)"

    @property
    def loc(self) -> str:
        return self.mod.loc(self.call)


def _enclosing(node: ast.AST) -> tuple[str | None, str | None]:
    fn = cl = None
    p = getattr(node, "_parent", None)
    while p is not None:
        if isinstance(p, (ast.FunctionDef, ast.AsyncFunctionDef)) and fn is None:
            fn = p.name
        if isinstance(p, ast.ClassDef) and cl is None:
            cl = p.name
        p = getattr(p, "_parent", None)
    return cl, fn


def callee_kind(m: core.Mod, cls: str | None, call: ast.Call) -> tuple[str | None, str]:
    fnode = core.strip_casts(call.func)
    d = dotted(fnode)
    name = d or ("?." + fnode.attr if isinstance(fnode, ast.Attribute) else "?")
    last = name.rsplit(".", 1)[-1]
    imps = m.imports()
    if last == "create" and (d or "").split(".")[0] in ("cls", "self", "DateTime"):
        return "CREATE", name
    if name in ("pendulum.datetime",):
        return "CREATE", name
    if name == "pendulum.naive":
        return "NAIVE", name
    if name == "pendulum.date":
        return "DATE", name
    if name == "pendulum.time":
        return "PTIME", name
    if last == "at" and isinstance(call.func, ast.Attribute):
        return "AT", name
    if last == "on" and isinstance(call.func, ast.Attribute):
        return "ON", name
    if last == "__class__" or name == "cls":
        return CLASS_KIND.get(cls or "", None), name
    if name in ("datetime.datetime", "_datetime.datetime"):
        return "DT", name
    if name in ("datetime.date", "_datetime.date"):
        return "DATE", name
    if name in ("datetime.time", "_datetime.time"):
        return "TIME", name
    if name in ("DateTime", "pendulum.DateTime"):
        return "DT", name
    if name in ("Date", "pendulum.Date"):
        return "DATE", name
    if name in ("Time", "pendulum.Time"):
        return "TIME", name
    if name in ("datetime", "date", "time"):
        # a module-level function of this module shadows the import
        if m.has_func(name):
            return {"datetime": "CREATE", "date": "DATE", "time": "PTIME"}[name], "pendulum." + name
        if imps.get(name) == ("datetime", name):
            return {"datetime": "DT", "date": "DATE", "time": "TIME"}[name], name
    return None, name


def scan(m: core.Mod) -> list[Site]:
    sites: list[Site] = []
    for call in core.calls(m.tree):
        cls, fn = _enclosing(call)
        if fn is None:
            continue
        kind, name = callee_kind(m, cls, call)
        if kind is None:
            continue
        try:
            bound = core.bind(call, PARAMS[kind])
        except core.Unsupported:
            continue
        by_src: dict[str, dict[str, str]] = {}
        for p, e in bound.items():
            e = core.strip_casts(e)
            if isinstance(e, ast.Attribute) and e.attr in FIELDS:
                by_src.setdefault(un(e.value), {})[p] = e.attr
        if not by_src:
            continue
        src, proj = max(by_src.items(), key=lambda kv: len(kv[1]))
        total = sum(len(v) for v in by_src.values())
        if len(proj) < 3 and not (len(proj) == 2 and total >= 3):
            continue
        foreign = {p: (s2, f) for s2, pr in by_src.items() if s2 != src for p, f in pr.items()}
        sites.append(Site(m, f"{cls + '.' if cls else ''}{fn}", call, kind, name, src, bound, proj, foreign))
    return sites


# Intentional state drops, confirmed by reading (DESIGN 3/F1).  Key:
# (function, callee kind, source expr, field) -> reason.
DROPS: dict[tuple[str, str, str, str], str] = {
    ("DateTime.naive", "self.__class__", "self", "tzinfo"): "naive() removes the zone by definition",
    ("DateTime.naive", "self.__class__", "self", "fold"): "a zone-less value has no ambiguity to resolve",
    ("DateTime.add", "datetime.datetime", "self", "tzinfo"): "clock copy: the arithmetic is done on naive fields, the zone is re-attached below",
    ("DateTime.add", "datetime.datetime", "self", "fold"): "clock copy for arithmetic; fold of the result comes from convert()",
    ("DateTime.add", "self.__class__.create", "dt", "fold"): "calendar branch: the wall time is re-resolved with the documented default fold",
    ("DateTime.add", "datetime.datetime", "dt", "fold"): "UTC intermediate: UTC has no repeated times",
    ("DateTime.__sub__", "pendulum.naive", "other", "fold"): "naive operand: fold plays no role in naive subtraction",
    ("DateTime.__rsub__", "pendulum.naive", "other", "fold"): "naive operand: fold plays no role in naive subtraction",
    ("Interval.__init__", "datetime", "start", "fold"): "copy only feeds precise_diff's calendar decomposition (wall fields)",
    ("Interval.__init__", "datetime", "end", "fold"): "copy only feeds precise_diff's calendar decomposition (wall fields)",
    ("from_timestamp", "pendulum.datetime", "dt", "tz"): "utcfromtimestamp() fields are UTC; pendulum.datetime defaults to tz=UTC",
    ("from_timestamp", "pendulum.datetime", "dt", "fold"): "UTC has no repeated times",
    ("_parse", "pendulum.datetime", "parsed", "fold"): "parsed native value carries no fold; default applies",
    ("_normalize", "datetime", "parsed", "tzinfo"): "a parsed time-of-day is combined with today's date as a naive value (pendulum.parse attaches tz later)",
    ("_normalize", "datetime", "parsed", "fold"): "parsed native value carries no fold",
}
for _f in ("Time.closest", "Time.farthest", "Time.diff", "Time.__sub__", "Time.__rsub__"):
    for _s in ("dt1", "dt2", "dt", "other"):
        DROPS[(_f, "self.__class__", _s, "tzinfo")] = "comparison helper works on naive times of day (aware operands are rejected / compared by clock)"
        DROPS[(_f, "self.__class__", _s, "fold")] = "fold is irrelevant for a clock comparison"
DROPS[("DateTime.time", "Time", "self", "tzinfo")] = "datetime.time() is naive in the standard library too"
DROPS[("DateTime.time", "Time", "self", "fold")] = "kept as the drop-in of the native time(), whose fold is not observable without tzinfo"


MIX_OK: set[tuple[str, str, str]] = set()     # (function, callee, parameter) of legitimate mixes; none today


def check_site(ctx, s: Site, rule: str = "RECON", drops: dict | None = None,
               pendulum_receivers: tuple[str, ...] = ()) -> None:
    drops = DROPS if drops is None else drops
    params = PARAMS[s.kind]
    # (i) slot fidelity
    for p, f in s.proj.items():
        want = PI.get(p)
        if want is None:
            continue
        f_n = "tzinfo" if f in ("tz", "timezone") else f
        ctx.ob(f"{rule}.slot", f"{s.key}/{p}", f_n == want,
               f"parameter {p} receives {s.src}.{f}, expected {s.src}.{want}", s.loc)
        # (iv) lossless projection
        if want == "tzinfo" and f in ("tz", "timezone"):
            ok = s.src in pendulum_receivers
            ctx.ob(f"{rule}.lossless", f"{s.key}/{p}", ok,
                   f"{p}={s.src}.{f} narrows the tzinfo (None for a foreign tzinfo); use {s.src}.tzinfo", s.loc)
    # (i') one source: a field of the same group taken from another value rebuilds a value that never existed
    for p, (s2, f) in s.foreign.items():
        grp = DATE_F if p in DATE_F else TIME_F if p in TIME_F else None
        if grp is not None and any(q in grp for q in s.proj):
            ctx.ob(f"{rule}.source", f"{s.key}/{p}", False,
                   f"parameter {p} receives {s2}.{f} while the other {'/'.join(grp)} fields are copied from {s.src}", s.loc)
    # (ii) no gap inside a field group
    projected = set(s.proj.values())
    for grp in (DATE_F, TIME_F):
        g = [p for p in grp if p in params]
        if not g or not (projected & set(grp)):
            continue
        for p in g:
            ctx.ob(f"{rule}.gap", f"{s.key}/{p}", p in s.bound,
                   f"{p} is not passed although other {'/'.join(grp)} fields of {s.src} are", s.loc)
    # (ii') no silent mixing: when one group is projected from the source, the other group's parameters must be
    # projections too (of any temporal source) or literals - a bare local in their place means those fields
    # bypass the converted value (e.g. create() rebuilding year/month/day from its own arguments)
    for grp, other in ((DATE_F, TIME_F), (TIME_F, DATE_F)):
        if not (projected & set(other)):
            continue
        for p in grp:
            if p not in params or p not in s.bound or p in s.proj:
                continue
            e = core.strip_casts(s.bound[p])
            is_proj = isinstance(e, ast.Attribute) and e.attr in FIELDS
            if is_proj or core.is_const(e) or (s.func, s.callee, p) in MIX_OK:
                continue
            ctx.ob(f"{rule}.mixed", f"{s.key}/{p}", False,
                   f"{p}={un(e)} while the {'/'.join(other)} fields are taken from {s.src}: the value is rebuilt from two "
                   f"different sources, so a change of {s.src}'s date/time part (gap shift, conversion) is lost", s.loc)
    # (iii) state fields
    if projected & set(TIME_F) or s.kind in ("DT", "CREATE") and len(projected & set(TIME_F)) > 0:
        for p in params:
            if p not in ("tzinfo", "tz", "fold"):
                continue
            fld = PI[p]
            if p in s.bound:
                ctx.ob(f"{rule}.state", f"{s.key}/{fld}", True, f"{p}={un(s.bound[p])}", s.loc)
                continue
            reason = drops.get((s.func, s.callee, s.src, "tz" if p == "tz" else fld)) or \
                drops.get((s.func, s.callee, s.src, fld))
            if reason:
                ctx.ob(f"{rule}.state", f"{s.key}/{fld}", True, f"intentional drop: {reason}", s.loc,
                       nontrivial=False)
            else:
                ctx.ob(f"{rule}.state", f"{s.key}/{fld}", False,
                       f"{fld} of {s.src} is not carried into {s.callee}(...) (no {p}= argument) "
                       f"and the site is not an intentional drop", s.loc)


def sites_in(m: core.Mod, funcs: list[str]) -> list[Site]:
    return [s for s in scan(m) if s.func in funcs]
