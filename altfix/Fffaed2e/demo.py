"""DateTime.combine(date, time, tzinfo) must attach the explicit tzinfo even if
the time is aware, exactly as datetime.datetime.combine() does."""
import sys
from datetime import date, datetime, time, timedelta, timezone

import pendulum

failures = []
d = date(2016, 3, 4)
zones = [
    timezone.utc,
    timezone(timedelta(hours=-7)),
    pendulum.timezone("Europe/Paris"),
    pendulum.timezone("America/New_York"),
]
times = [
    time(1, 2, 3, 123456, tzinfo=timezone(timedelta(hours=5))),
    time(23, 59, 59, tzinfo=timezone.utc),
    time(12, 0, tzinfo=timezone(timedelta(hours=-3, minutes=-30))),
    time(6, 30),  # naive time: must keep working
]
for t in times:
    for z in zones:
        want = datetime.combine(d, t, z)
        got = pendulum.DateTime.combine(d, t, z)
        same_fields = got.replace(tzinfo=None) == want.replace(tzinfo=None)
        if not (same_fields and got.utcoffset() == want.utcoffset() and got == want):
            failures.append((t, z, got.isoformat(), want.isoformat()))

# hand-computed: 01:02:03 wall clock at -07:00, not 01:02:03+05:00
got = pendulum.DateTime.combine(d, times[0], timezone(timedelta(hours=-7)))
if got.isoformat() != "2016-03-04T01:02:03.123456-07:00":
    failures.append(("hand", got.isoformat()))

# fold of the time is carried over (repeated hour in Paris, 2013-10-27 02:30)
t = time(2, 30, tzinfo=timezone.utc, fold=1)
got = pendulum.DateTime.combine(date(2013, 10, 27), t, pendulum.timezone("Europe/Paris"))
if got.isoformat() != "2013-10-27T02:30:00+01:00":
    failures.append(("fold", got.isoformat()))

# without an explicit tzinfo an aware time keeps its own zone
got = pendulum.DateTime.combine(d, times[0])
if got.isoformat() != "2016-03-04T01:02:03.123456+05:00":
    failures.append(("default", got.isoformat()))

for f in failures:
    print("FAIL", f)
print("ok" if not failures else f"{len(failures)} failures")
sys.exit(1 if failures else 0)
