"""E6: regex abstract syntax (CPython's own parser), finite languages, group facts."""
from __future__ import annotations

import re
import re._constants as C  # type: ignore[import-not-found]
import re._parser as P  # type: ignore[import-not-found]
from dataclasses import dataclass, field

from .core import Unsupported

MAXREPEAT = C.MAXREPEAT


def parse(pattern: str, flags: int = 0):
    return P.parse(pattern, flags)


def language(tree, limit: int = 5000) -> set[str]:
    """The finite set of strings matched by `tree` (raises Unsupported when infinite / too large)."""
    def seq(items) -> set[str]:
        out = {""}
        for it in items:
            nxt = one(it)
            out = {a + b for a in out for b in nxt}
            if len(out) > limit:
                raise Unsupported("regex language too large")
        return out

    def one(it) -> set[str]:
        op, av = it
        if op is C.LITERAL:
            return {chr(av)}
        if op is C.IN:
            chars = set()
            for o, a in av:
                if o is C.LITERAL:
                    chars.add(chr(a))
                elif o is C.RANGE:
                    if a[1] - a[0] > 64:
                        raise Unsupported("wide character range")
                    chars |= {chr(c) for c in range(a[0], a[1] + 1)}
                else:
                    raise Unsupported(f"set item {o}")
            return chars
        if op is C.BRANCH:
            out: set[str] = set()
            for alt in av[1]:
                out |= seq(alt)
            return out
        if op is C.SUBPATTERN:
            return seq(av[3])
        if op in (C.MAX_REPEAT, C.MIN_REPEAT):
            lo, hi, sub = av
            if hi is MAXREPEAT or hi > 12:
                raise Unsupported("unbounded repeat")
            base = seq(sub)
            out = set()
            for n in range(lo, hi + 1):
                cur = {""}
                for _ in range(n):
                    cur = {a + b for a in cur for b in base}
                out |= cur
            return out
        if op is C.AT:
            return {""}
        raise Unsupported(f"regex op {op}")

    return seq(tree)


@dataclass
class Group:
    name: str
    index: int
    optional_self: bool = False          # the group itself is under ?, * or {0,..}
    ancestors: list[int] = field(default_factory=list)      # enclosing group indices, outermost first
    guard_path: list[tuple[str, object]] = field(default_factory=list)
    min_len: int = 0
    max_len: int | None = 0
    digits_only: bool = True
    in_branch: list[tuple[int, int]] = field(default_factory=list)   # (branch id, alternative index)
    mandatory_in: set[int] = field(default_factory=set)   # ancestor groups inside which this group always participates
    unconditional: bool = False         # participates in every match
    alt_cover: tuple[int, int] | None = None   # the group is the whole alternative `ai` of branch `bid`
    parent: str | None = None           # nearest enclosing named group
    optional_in_parent: bool = True     # an optional repeat or alternation lies between parent and this group


@dataclass
class Branch:
    bid: int
    n_alts: int
    parent: str | None                  # nearest enclosing named group
    mandatory_in_parent: bool           # the alternation itself always participates when the parent does
    covers: dict[int, str] = field(default_factory=dict)   # alternative index -> named group covering it entirely


def _width(items) -> tuple[int, int | None, bool]:
    lo, hi, dig = 0, 0, True
    for op, av in items:
        if op is C.LITERAL:
            lo += 1
            hi = None if hi is None else hi + 1
            dig = dig and chr(av).isdigit()
        elif op is C.IN:
            lo += 1
            hi = None if hi is None else hi + 1
            dig = dig and all((o is C.CATEGORY and a is C.CATEGORY_DIGIT) or (o is C.LITERAL and chr(a).isdigit())
                              or (o is C.RANGE and chr(a[0]).isdigit() and chr(a[1]).isdigit()) for o, a in av)
        elif op is C.ANY:
            lo += 1
            hi = None if hi is None else hi + 1
            dig = False
        elif op is C.SUBPATTERN:
            l2, h2, d2 = _width(av[3])
            lo += l2
            hi = None if hi is None or h2 is None else hi + h2
            dig = dig and d2
        elif op in (C.MAX_REPEAT, C.MIN_REPEAT):
            a, b, sub = av
            l2, h2, d2 = _width(sub)
            lo += a * l2
            if b is MAXREPEAT or h2 is None or hi is None:
                hi = None
            else:
                hi += b * h2
            dig = dig and d2
        elif op is C.BRANCH:
            ws = [_width(alt) for alt in av[1]]
            lo += min(w[0] for w in ws)
            hi = None if hi is None or any(w[1] is None for w in ws) else hi + max(w[1] for w in ws)
            dig = dig and all(w[2] for w in ws)
        elif op is C.AT:
            pass
        elif op is C.CATEGORY:
            lo += 1
            hi = None if hi is None else hi + 1
            dig = dig and av is C.CATEGORY_DIGIT
        else:
            dig = False
    return lo, hi, dig


def groups(pattern: str, flags: int = 0) -> dict[str, Group]:
    """Facts about every named group: width, digit-only, whether it always
    participates when a given ancestor participates (no optional repeat and no
    alternation in between), and whether it participates in every match."""
    return analyse(pattern, flags)[0]


def analyse(pattern: str, flags: int = 0) -> tuple[dict[str, Group], dict[int, Branch]]:
    tree = parse(pattern, flags)
    names = {v: k for k, v in tree.state.groupdict.items()}
    out: dict[str, Group] = {}
    branches: dict[int, Branch] = {}
    branch_id = [0]

    def walk(items, anc: list[int], optional_since: dict[int, bool], branch_ctx: list[tuple[int, int]], top_optional: bool):
        for op, av in items:
            if op is C.SUBPATTERN:
                gi, _af, _df, sub = av
                if gi is not None and gi in names:
                    lo, hi, dig = _width(sub)
                    g = Group(names[gi], gi, ancestors=list(anc), min_len=lo, max_len=hi, digits_only=dig,
                              in_branch=list(branch_ctx))
                    g.mandatory_in = {a for a in anc if not optional_since.get(a, True)}
                    g.unconditional = not top_optional
                    named_anc = [a for a in anc if a in names]
                    g.parent = names[named_anc[-1]] if named_anc else None
                    g.optional_in_parent = optional_since.get(named_anc[-1], True) if named_anc else top_optional
                    out[g.name] = g
                    walk(sub, anc + [gi], {**optional_since, gi: False}, branch_ctx, top_optional)
                else:
                    walk(sub, anc, optional_since, branch_ctx, top_optional)
            elif op in (C.MAX_REPEAT, C.MIN_REPEAT):
                lo, hi, sub = av
                if lo == 0:
                    walk(sub, anc, {a: True for a in optional_since}, branch_ctx, True)
                else:
                    walk(sub, anc, optional_since, branch_ctx, top_optional)
            elif op is C.BRANCH:
                branch_id[0] += 1
                bid = branch_id[0]
                named_anc = [a for a in anc if a in names]
                br = Branch(bid, len(av[1]), names[named_anc[-1]] if named_anc else None,
                            (not optional_since.get(named_anc[-1], True)) if named_anc else (not top_optional))
                branches[bid] = br
                for ai, alt in enumerate(av[1]):
                    real = [it for it in alt if it[0] is not C.AT]
                    if len(real) == 1 and real[0][0] is C.SUBPATTERN and real[0][1][0] in names:
                        br.covers[ai] = names[real[0][1][0]]
                    walk(alt, anc, {a: True for a in optional_since}, branch_ctx + [(bid, ai)], True)
            elif op in (C.ASSERT, C.ASSERT_NOT):
                continue

    walk(tree, [], {}, [], False)
    idx_to_name = {g.index: g.name for g in out.values()}
    for g in out.values():
        g.ancestors = [idx_to_name.get(a, str(a)) for a in g.ancestors]  # type: ignore[misc]
        g.mandatory_in = {idx_to_name.get(a, str(a)) for a in g.mandatory_in}  # type: ignore[misc]
    for br in branches.values():
        for ai, gname in br.covers.items():
            out[gname].alt_cover = (br.bid, ai)
    return out, branches


_ = re
