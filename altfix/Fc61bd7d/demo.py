"""precise_diff(): years/months/days/... added back to the earlier datetime must give the later one
(months added first, clamping the day to the length of the month, as datetime arithmetic libraries do),
and a full month is only reported for a clamped end of month.  Checks the active back end (Rust extension
by default) and, in a child process with PENDULUM_EXTENSIONS=0, the pure-Python helper."""
import calendar
import datetime as dt
import os
import random
import subprocess
import sys

from pendulum.helpers import precise_diff

backend = precise_diff.__module__
bad = []


def add_back(start, r):
    months = start.year * 12 + start.month - 1 + abs(r.years) * 12 + abs(r.months)
    year, month = divmod(months, 12)
    month += 1
    day = min(start.day, calendar.monthrange(year, month)[1])
    return start.replace(year=year, month=month, day=day) + dt.timedelta(
        days=abs(r.days), hours=abs(r.hours), minutes=abs(r.minutes),
        seconds=abs(r.seconds), microseconds=abs(r.microseconds),
    )


def fields(r):
    return (r.years, r.months, r.days, r.hours, r.minutes, r.seconds, r.microseconds)


# hand-computed
D = dt.datetime
for a, b, want in [
    (D(2021, 1, 31), D(2021, 2, 28), (0, 1, 0, 0, 0, 0, 0)),              # clamped: one full month
    (D(2021, 1, 31, 10), D(2021, 2, 28, 11), (0, 1, 0, 1, 0, 0, 0)),
    (D(2021, 1, 30, 10), D(2021, 2, 28, 9), (0, 0, 28, 23, 0, 0, 0)),      # was 1 month 23 hours
    (D(2021, 4, 24, 21, 49), D(2022, 2, 22, 6, 21), (0, 9, 28, 8, 32, 0, 0)),  # was 10 months 0 days
    (D(2021, 3, 15, 10), D(2021, 4, 15, 9), (0, 0, 30, 23, 0, 0, 0)),      # was 1 month 23 hours
    (D(2021, 5, 30), D(2022, 2, 27), (0, 8, 28, 0, 0, 0, 0)),              # was 9 months
    (D(2011, 12, 31), D(2012, 2, 29), (0, 2, 0, 0, 0, 0, 0)),              # clamped, leap year
]:
    got = fields(precise_diff(a, b))
    if got != want:
        bad.append(f"precise_diff({a}, {b}) = {got}, expected {want}")
    got = fields(precise_diff(b, a))
    if got != tuple(-x for x in want):
        bad.append(f"precise_diff({b}, {a}) = {got}, expected the negated {want}")

rng = random.Random(61)
base = D(2011, 1, 1)
n = 0
for i in range(60000):
    a = base + dt.timedelta(days=rng.randint(0, 1500), seconds=rng.choice([0, rng.randint(0, 86399)]),
                            microseconds=rng.choice([0, rng.randint(0, 999999)]))
    b = base + dt.timedelta(days=rng.randint(0, 1500), seconds=rng.choice([0, rng.randint(0, 86399)]),
                            microseconds=rng.choice([0, rng.randint(0, 999999)]))
    r = precise_diff(a, b)
    lo, hi = min(a, b), max(a, b)
    n += 1
    if add_back(lo, r) != hi:
        bad.append(f"precise_diff({a}, {b}) = {fields(r)}: added back to {lo} gives {add_back(lo, r)}")
# every pair of days around the ends of the months, with an earlier time of day at the end
for y in (2019, 2020):
    for m1 in range(1, 13):
        for d1 in range(24, calendar.monthrange(y, m1)[1] + 1):
            for m2 in range(1, 13):
                for d2 in range(20, calendar.monthrange(y + 1, m2)[1] + 1):
                    for t1, t2 in ((10, 9), (0, 0), (9, 10)):
                        a, b = D(y, m1, d1, t1), D(y + 1, m2, d2, t2)
                        r = precise_diff(a, b)
                        n += 1
                        if add_back(a, r) != b:
                            bad.append(f"precise_diff({a}, {b}) = {fields(r)}: added back gives {add_back(a, r)}")

status = 0
if bad:
    print(f"[{backend}] {len(bad)} of {n} checks failed, e.g.:")
    for x in bad[:8]:
        print("  ", x)
    status = 1
else:
    print(f"[{backend}] ok: {n} checks")

if os.environ.get("PENDULUM_EXTENSIONS") != "0":
    # the other implementation
    child = subprocess.run([sys.executable, os.path.abspath(__file__)],
                           env=dict(os.environ, PENDULUM_EXTENSIONS="0"))
    status = status or child.returncode
sys.exit(status)
