"""E1/E4: resolved view of the Python sources under <repo>/src/pendulum.

Nothing here imports or executes pendulum; everything is read through `ast`.
The repository root is /repo unless PVS_REPO points at a scratch copy (used by
the self-test and by `--repo`).
"""
from __future__ import annotations

import ast
import copy
import os
import re
from pathlib import Path
from typing import Any, Iterator

REPO = Path(os.environ.get("PVS_REPO", "/repo"))
VERIF = Path(__file__).resolve().parent.parent


class AnchorMissing(Exception):
    """A function / class / table the rule is anchored in is no longer found."""


class Unsupported(Exception):
    """The construct has a form the rule does not model (-> UNVERIFIED)."""


def set_repo(path: str | Path) -> None:
    global REPO
    REPO = Path(path)
    _MODS.clear()


_MODS: dict[str, "Mod"] = {}


class Mod:
    def __init__(self, rel: str):
        self.rel = rel
        self.path = REPO / rel
        if not self.path.exists():
            raise AnchorMissing(f"file {rel} not found")
        self.text = self.path.read_text(encoding="utf-8")
        self.tree = ast.parse(self.text, filename=str(self.path))
        if rel.endswith(".py"):
            from . import sem       # functions equivalent to their reference counterpart are seen in reference form
            self.tree = sem.hybridise(self.tree, self.text, rel)
        for node in ast.walk(self.tree):
            for child in ast.iter_child_nodes(node):
                child._parent = node  # type: ignore[attr-defined]
        self._imports: dict[str, tuple[str, str | None]] | None = None

    # -- lookup -----------------------------------------------------------
    def top(self) -> Iterator[ast.stmt]:
        """Top-level statements, descending into try/if blocks (backend switches)."""
        def rec(body):
            for st in body:
                yield st
                if isinstance(st, ast.Try):
                    yield from rec(st.body)
                    for h in st.handlers:
                        yield from rec(h.body)
                    yield from rec(st.orelse)
                elif isinstance(st, ast.If):
                    yield from rec(st.body)
                    yield from rec(st.orelse)
        yield from rec(self.tree.body)

    def cls(self, name: str) -> ast.ClassDef:
        for st in self.top():
            if isinstance(st, ast.ClassDef) and st.name == name:
                return st
        raise AnchorMissing(f"class {name} not found in {self.rel}")

    def has_cls(self, name: str) -> bool:
        try:
            self.cls(name)
            return True
        except AnchorMissing:
            return False

    def func(self, qual: str) -> ast.FunctionDef:
        """'f' or 'Class.f'.  For overloaded names the last (implementation) wins."""
        parts = qual.split(".")
        body: list[ast.stmt]
        if len(parts) == 2:
            body = _class_body(self.cls(parts[0]))
        else:
            body = list(self.top())
        found = None
        for st in body:
            if isinstance(st, (ast.FunctionDef, ast.AsyncFunctionDef)) and st.name == parts[-1]:
                if any(dotted(d) in ("overload", "typing.overload", "t.overload") for d in st.decorator_list):
                    continue
                found = st
        if found is None and len(parts) == 2:
            # not defined in the class body: the method the class inherits from a base class of the same module, when that one is concrete
            # (a refactoring may hoist a method shared by sibling classes into their common base)
            for base in self.cls(parts[0]).bases:
                bn = dotted(base)
                if bn and self.has_cls(bn) and bn != parts[0]:
                    try:
                        cand = self.func(f"{bn}.{parts[1]}")
                    except AnchorMissing:
                        continue
                    if not _is_abstract(cand):
                        return cand
        if found is None:
            raise AnchorMissing(f"function {qual} not found in {self.rel}")
        return found

    def has_func(self, qual: str) -> bool:
        try:
            self.func(qual)
            return True
        except AnchorMissing:
            return False

    def methods(self, cls: str, inherited: bool = False) -> dict[str, ast.FunctionDef]:
        """the methods defined in the class body; with `inherited`, also the concrete ones of its base classes in the same module"""
        out: dict[str, ast.FunctionDef] = {}
        if inherited:
            for base in self.cls(cls).bases:
                bn = dotted(base)
                if bn and bn != cls and self.has_cls(bn):
                    out.update({k: f for k, f in self.methods(bn, True).items() if not _is_abstract(f)})
        for st in _class_body(self.cls(cls)):
            if isinstance(st, ast.FunctionDef):
                if any(dotted(d) in ("overload", "typing.overload") for d in st.decorator_list):
                    continue
                out[st.name] = st
        return out

    def methods_mro(self, cls: str, _depth: int = 0) -> dict[str, ast.FunctionDef]:
        """the methods an instance of the class finds: its own and those of its base classes - in this module or imported from another
        module of the package (`from pendulum.mixins.default import FormattableMixin`); classes of the standard library contribute nothing
        (a world says what they answer)"""
        out: dict[str, ast.FunctionDef] = {}
        if _depth < 6:
            imported = {}
            for st in self.tree.body:
                if isinstance(st, ast.ImportFrom) and st.level == 0 and (st.module or "").startswith("pendulum"):
                    for a in st.names:
                        imported[a.asname or a.name] = (st.module, a.name)
            for base in reversed(self.cls(cls).bases):
                bn = dotted(base)
                if not bn or bn == cls:
                    continue
                try:
                    if self.has_cls(bn):
                        inh = self.methods_mro(bn, _depth + 1)
                    elif bn in imported and imported[bn][0] != "pendulum":
                        other = pmod(imported[bn][0][len("pendulum."):])
                        inh = other.methods_mro(imported[bn][1], _depth + 1) if other.has_cls(imported[bn][1]) else {}
                    else:
                        inh = {}
                except AnchorMissing:
                    inh = {}
                out.update({k: f for k, f in inh.items() if not _is_abstract(f)})
        out.update(self.methods(cls))
        return out

    def class_aliases(self, cls: str) -> dict[str, str]:
        """`__radd__ = __add__` style aliases inside a class body."""
        out = {}
        for st in _class_body(self.cls(cls)):
            if isinstance(st, ast.Assign) and len(st.targets) == 1 and isinstance(st.targets[0], ast.Name) \
                    and isinstance(st.value, ast.Name):
                out[st.targets[0].id] = st.value.id
        return out

    def assign(self, name: str, cls: str | None = None) -> ast.expr:
        body = _class_body(self.cls(cls)) if cls else list(self.top())
        found = None
        for st in body:
            if isinstance(st, ast.Assign):
                for t in st.targets:
                    if isinstance(t, ast.Name) and t.id == name:
                        found = st.value
            elif isinstance(st, ast.AnnAssign) and isinstance(st.target, ast.Name) and st.target.id == name \
                    and st.value is not None:
                found = st.value
        if found is None:
            raise AnchorMissing(f"assignment {cls + '.' if cls else ''}{name} not found in {self.rel}")
        return found

    def imports(self) -> dict[str, tuple[str, str | None]]:
        """local name -> (module, attr|None).  Later bindings override earlier
        ones except inside `except ImportError` fall-backs, which are recorded
        under '<name>@fallback'."""
        if self._imports is None:
            out: dict[str, tuple[str, str | None]] = {}
            for st in ast.walk(self.tree):
                if isinstance(st, ast.ImportFrom) and st.module:
                    for a in st.names:
                        key = a.asname or a.name
                        if _in_except(st) and key in out:
                            out[key + "@fallback"] = (st.module, a.name)
                        else:
                            out[key] = (st.module, a.name)
                elif isinstance(st, ast.Import):
                    for a in st.names:
                        out[a.asname or a.name.split(".")[0]] = (a.name if a.asname else a.name.split(".")[0], None)
            self._imports = out
        return self._imports

    def loc(self, node: ast.AST) -> str:
        return f"{self.rel}:{getattr(node, 'lineno', 0)}"


def _in_except(node: ast.AST) -> bool:
    p = getattr(node, "_parent", None)
    while p is not None:
        if isinstance(p, ast.ExceptHandler):
            return True
        p = getattr(p, "_parent", None)
    return False


def _is_abstract(f: ast.FunctionDef) -> bool:
    if any(dotted(d) in ("abstractmethod", "abc.abstractmethod") for d in f.decorator_list):
        return True
    body = [st for st in f.body if not (isinstance(st, ast.Expr) and isinstance(st.value, ast.Constant))]
    return len(body) == 1 and isinstance(body[0], ast.Raise) and "NotImplementedError" in ast.unparse(body[0])


def _class_body(c: ast.ClassDef) -> list[ast.stmt]:
    out: list[ast.stmt] = []
    for st in c.body:
        out.append(st)
        if isinstance(st, ast.If):  # `if PYPY:` blocks are not part of the CPython class
            test = dotted(st.test)
            if test == "PYPY":
                continue
            out.extend(st.body)
            out.extend(st.orelse)
    return out


def mod(rel: str) -> Mod:
    key = str(REPO) + "::" + rel
    if key not in _MODS:
        _MODS[key] = Mod(rel)
    return _MODS[key]


PKG = "src/pendulum"


def pmod(name: str) -> Mod:
    """pmod('datetime') -> src/pendulum/datetime.py ; pmod('tz.timezone')"""
    rel = f"{PKG}/{name.replace('.', '/')}"
    if (REPO / (rel + ".py")).exists():
        return mod(rel + ".py")
    if (REPO / rel / "__init__.py").exists():
        return mod(rel + "/__init__.py")
    raise AnchorMissing(f"module pendulum.{name} not found")


def all_py_modules() -> list[str]:
    root = REPO / PKG
    return sorted(str(p.relative_to(REPO)) for p in root.rglob("*.py"))


# ---------------------------------------------------------------------------
# small AST utilities


def dotted(node: ast.AST | None) -> str | None:
    if isinstance(node, ast.Name):
        return node.id
    if isinstance(node, ast.Attribute):
        b = dotted(node.value)
        return None if b is None else f"{b}.{node.attr}"
    return None


def un(node: ast.AST | None) -> str:
    return "" if node is None else ast.unparse(node)


_CAST_NAMES = {"cast", "t.cast", "typing.cast"}


class _StripCasts(ast.NodeTransformer):
    def visit_Call(self, node: ast.Call):
        self.generic_visit(node)
        if dotted(node.func) in _CAST_NAMES and len(node.args) == 2:
            return node.args[1]
        # `type(self)` is the same object as `self.__class__` for these classes
        if isinstance(node.func, ast.Name) and node.func.id == "type" and len(node.args) == 1 and not node.keywords \
                and isinstance(node.args[0], ast.Name) and node.args[0].id in ("self", "dt"):
            return ast.Attribute(value=node.args[0], attr="__class__", ctx=ast.Load())
        return node


def clone(node: Any) -> Any:
    """Deep copy of an AST that does not follow the `_parent` back links."""
    if isinstance(node, ast.AST):
        new = node.__class__()
        for f, v in ast.iter_fields(node):
            setattr(new, f, clone(v))
        for a in ("lineno", "col_offset", "end_lineno", "end_col_offset"):
            if hasattr(node, a):
                setattr(new, a, getattr(node, a))
        return new
    if isinstance(node, list):
        return [clone(x) for x in node]
    return node


def strip_casts(node: ast.AST) -> ast.AST:
    return _StripCasts().visit(clone(node))


def nun(node: ast.AST | None) -> str:
    """normalised unparse: casts removed."""
    return "" if node is None else ast.unparse(strip_casts(node))


def calls(node: ast.AST) -> list[ast.Call]:
    return [n for n in ast.walk(node) if isinstance(n, ast.Call)]


def callee_name(call: ast.Call) -> str:
    d = dotted(call.func)
    if d is not None:
        return d
    if isinstance(call.func, ast.Attribute):
        return "?." + call.func.attr
    return "?"


def kw(call: ast.Call) -> dict[str, ast.expr]:
    return {k.arg: k.value for k in call.keywords if k.arg is not None}


def star_kw(call: ast.Call) -> list[ast.expr]:
    return [k.value for k in call.keywords if k.arg is None]


def params(fn: ast.FunctionDef, drop_self: bool = True) -> list[str]:
    a = fn.args
    names = [x.arg for x in a.posonlyargs + a.args]
    if drop_self and names and names[0] in ("self", "cls", "mcs"):
        names = names[1:]
    return names + [x.arg for x in a.kwonlyargs]


def defaults(fn: ast.FunctionDef) -> dict[str, ast.expr]:
    a = fn.args
    pos = a.posonlyargs + a.args
    out: dict[str, ast.expr] = {}
    for p, d in zip(pos[len(pos) - len(a.defaults):], a.defaults):
        out[p.arg] = d
    for p, d in zip(a.kwonlyargs, a.kw_defaults):
        if d is not None:
            out[p.arg] = d
    return out


def bind(call: ast.Call, fn_params: list[str]) -> dict[str, ast.expr]:
    """Bind positional+keyword arguments of `call` against a parameter list."""
    out: dict[str, ast.expr] = {}
    for i, a in enumerate(call.args):
        if isinstance(a, ast.Starred):
            raise Unsupported("starred positional argument")
        if i < len(fn_params):
            out[fn_params[i]] = a
        else:
            out[f"<extra{i}>"] = a
    for k in call.keywords:
        if k.arg is not None:
            out[k.arg] = k.value
    return out


def returns(fn: ast.AST, resolve_locals: bool = True) -> list[ast.Return]:
    """The return statements of `fn`.  In a straight-line function (no branching, every local assigned once) the
    returned expression is given with its locals replaced by their definitions, so that
    `x = f(); return g(x)` and `return g(f())` look the same to the rules."""
    out = []
    for n in walk_fn(fn):
        if isinstance(n, ast.Return):
            out.append(n)
    if resolve_locals and len(out) == 1 and isinstance(fn, (ast.FunctionDef, ast.AsyncFunctionDef)) and out[0].value is not None:
        body = body_no_doc(fn)
        simple = all(isinstance(st, (ast.Assign, ast.AnnAssign, ast.Return, ast.Expr, ast.Import, ast.ImportFrom, ast.Pass)) for st in body)
        if simple and body and body[-1] is out[0]:
            env: dict[str, ast.expr] = {}
            ok = True
            for st in body[:-1]:
                tgt = val = None
                if isinstance(st, ast.Assign) and len(st.targets) == 1 and isinstance(st.targets[0], ast.Name):
                    tgt, val = st.targets[0].id, st.value
                elif isinstance(st, ast.AnnAssign) and isinstance(st.target, ast.Name) and st.value is not None:
                    tgt, val = st.target.id, st.value
                elif isinstance(st, (ast.Assign, ast.AnnAssign)):
                    continue
                if tgt is not None:
                    if tgt in env:
                        ok = False
                        break
                    env[tgt] = _subst_names(val, env)
            if ok and env:
                r = ast.Return(value=_subst_names(out[0].value, env))
                ast.copy_location(r, out[0])
                r._parent = getattr(out[0], "_parent", None)  # type: ignore[attr-defined]
                return [r]
    return out


def _subst_names(expr: ast.expr, env: dict[str, ast.expr]) -> ast.expr:
    class S(ast.NodeTransformer):
        def visit_Name(self, node: ast.Name):
            if isinstance(node.ctx, ast.Load) and node.id in env:
                return clone(env[node.id])
            return node
    return S().visit(clone(expr))


def walk_fn(fn: ast.AST) -> Iterator[ast.AST]:
    """ast.walk that does not descend into nested function/class definitions
    (lambdas are descended into)."""
    stack = list(ast.iter_child_nodes(fn))
    while stack:
        n = stack.pop()
        yield n
        if isinstance(n, (ast.FunctionDef, ast.AsyncFunctionDef, ast.ClassDef)):
            continue
        stack.extend(ast.iter_child_nodes(n))


def body_no_doc(fn: ast.FunctionDef) -> list[ast.stmt]:
    b = fn.body
    if b and isinstance(b[0], ast.Expr) and isinstance(b[0].value, ast.Constant) and isinstance(b[0].value.value, str):
        return b[1:]
    return b


def assigns_to(fn: ast.AST, name: str) -> list[ast.expr]:
    """Values assigned to local `name` (plain Assign/AnnAssign) in order of appearance."""
    out: list[tuple[int, ast.expr]] = []
    for n in walk_fn(fn):
        if isinstance(n, ast.Assign):
            for t in n.targets:
                if isinstance(t, ast.Name) and t.id == name:
                    out.append((n.lineno, n.value))
        elif isinstance(n, ast.AnnAssign) and isinstance(n.target, ast.Name) and n.target.id == name and n.value:
            out.append((n.lineno, n.value))
    return [v for _, v in sorted(out, key=lambda x: x[0])]


def is_const(node: ast.AST, value: Any = ...) -> bool:
    if isinstance(node, ast.UnaryOp) and isinstance(node.op, ast.USub) and isinstance(node.operand, ast.Constant):
        v = -node.operand.value
    elif isinstance(node, ast.Constant):
        v = node.value
    else:
        return False
    return True if value is ... else (v == value and type(v) is type(value))


# ---------------------------------------------------------------------------
# E4: constant folding of module-level tables


class NotConst(Exception):
    pass


class Lambda:
    """A lambda kept as AST inside a folded table."""

    def __init__(self, node: ast.Lambda):
        self.node = node

    def __repr__(self) -> str:
        return f"<lambda {un(self.node)}>"


_BINOPS = {
    ast.Add: lambda a, b: a + b, ast.Sub: lambda a, b: a - b, ast.Mult: lambda a, b: a * b,
    ast.FloorDiv: lambda a, b: a // b, ast.Mod: lambda a, b: a % b, ast.Div: lambda a, b: a / b,
    ast.Pow: lambda a, b: a ** b,
}


def fold(node: ast.AST, m: Mod, cls: str | None = None, _depth: int = 0) -> Any:
    """Evaluate a literal expression.  Names resolve to module-level (or class
    level) assignments of `m`, or through `from pendulum.x import N`."""
    if _depth > 40:
        raise NotConst("recursion")
    f = lambda n: fold(n, m, cls, _depth + 1)  # noqa: E731
    if isinstance(node, ast.Constant):
        return node.value
    if isinstance(node, ast.Tuple):
        return tuple(f(e) for e in node.elts)
    if isinstance(node, ast.List):
        return [f(e) for e in node.elts]
    if isinstance(node, ast.Set):
        return {f(e) for e in node.elts}
    if isinstance(node, ast.Dict):
        out = {}
        for k, v in zip(node.keys, node.values):
            if k is None:
                out.update(f(v))
            else:
                out[f(k)] = f(v)
        return out
    if isinstance(node, ast.Lambda):
        return Lambda(node)
    if isinstance(node, (ast.DictComp, ast.ListComp, ast.SetComp, ast.GeneratorExp)):
        # a comprehension over constant iterables: unrolled, the loop variables substituted as constants into each element
        envs = [{}]
        for g in node.generators:
            if g.is_async:
                raise NotConst(un(node))
            nxt = []
            for e in envs:
                for item in list(fold(_subst_consts(g.iter, e), m, cls, _depth + 1)):
                    e2 = dict(e)
                    _bind_target(g.target, item, e2, node)
                    if all(fold(_subst_consts(c, e2), m, cls, _depth + 1) for c in g.ifs):
                        nxt.append(e2)
                if len(nxt) > 5000:
                    raise NotConst("comprehension too large")
            envs = nxt
        if isinstance(node, ast.DictComp):
            return {fold(_subst_consts(node.key, e), m, cls, _depth + 1): fold(_subst_consts(node.value, e), m, cls, _depth + 1) for e in envs}
        vals = [fold(_subst_consts(node.elt, e), m, cls, _depth + 1) for e in envs]
        return set(vals) if isinstance(node, ast.SetComp) else vals
    if isinstance(node, ast.UnaryOp):
        v = f(node.operand)
        if isinstance(node.op, ast.USub):
            return -v
        if isinstance(node.op, ast.UAdd):
            return +v
        if isinstance(node.op, ast.Not):
            return not v
    if isinstance(node, ast.BinOp) and type(node.op) in _BINOPS:
        return _BINOPS[type(node.op)](f(node.left), f(node.right))
    if isinstance(node, ast.JoinedStr):
        parts = []
        for v in node.values:
            if isinstance(v, ast.Constant):
                parts.append(str(v.value))
            elif isinstance(v, ast.FormattedValue) and v.format_spec is None and v.conversion == -1:
                parts.append(str(f(v.value)))
            else:
                raise NotConst(un(node))
        return "".join(parts)
    if isinstance(node, ast.Name):
        return fold_name(node.id, m, cls, _depth + 1)
    if isinstance(node, ast.Attribute):
        d = dotted(node)
        if d and d.startswith("WeekDay."):
            return _weekday(node.attr)
        raise NotConst(un(node))
    if isinstance(node, ast.Call):
        d = dotted(node.func)
        if d in ("re.compile",) and node.args:
            return f(node.args[0])
        if d in _CAST_NAMES and len(node.args) == 2:
            return f(node.args[1])
        if d in ("tuple", "list") and len(node.args) == 1:
            return type(())(f(node.args[0])) if d == "tuple" else list(f(node.args[0]))
        if d == "str" and not node.args:
            return ""
        if d == "range" and 1 <= len(node.args) <= 3 and not node.keywords:
            return list(range(*[f(a) for a in node.args]))
    raise NotConst(un(node))


class _SubstConsts(ast.NodeTransformer):
    def __init__(self, env: dict[str, Any]):
        self.env = env

    def visit_Name(self, n: ast.Name):
        if isinstance(n.ctx, ast.Load) and n.id in self.env and isinstance(self.env[n.id], (int, float, str, bool, type(None))):
            return ast.copy_location(ast.Constant(self.env[n.id]), n)
        return n

    def visit_Lambda(self, n: ast.Lambda):
        # `lambda x, k=k: ...` inside a comprehension binds the loop variable as a default: the parameter is dropped, its uses become the constant
        args = n.args
        pos = list(args.args)
        dfl = list(args.defaults)
        keep_pos, keep_dfl = [], []
        first_d = len(pos) - len(dfl)
        shadow = set()
        for i, a in enumerate(pos):
            d = dfl[i - first_d] if i >= first_d else None
            if d is not None and isinstance(d, ast.Name) and d.id == a.arg and a.arg in self.env:
                continue
            if a.arg in self.env:
                shadow.add(a.arg)
            keep_pos.append(a)
            if d is not None:
                keep_dfl.append(self.visit(d))
        inner = _SubstConsts({k: v for k, v in self.env.items() if k not in shadow})
        new = ast.Lambda(ast.arguments(posonlyargs=args.posonlyargs, args=keep_pos, vararg=args.vararg, kwonlyargs=args.kwonlyargs,
                                       kw_defaults=args.kw_defaults, kwarg=args.kwarg, defaults=keep_dfl), inner.visit(clone(n.body)))
        return ast.copy_location(new, n)


class _FoldConsts(ast.NodeTransformer):
    """folds what became constant after a substitution: arithmetic on number literals, literal parts of f-strings"""

    def visit_BinOp(self, n: ast.BinOp):
        self.generic_visit(n)
        if isinstance(n.left, ast.Constant) and isinstance(n.right, ast.Constant) and type(n.op) in _BINOPS \
                and isinstance(n.left.value, (int, float, str)) and isinstance(n.right.value, (int, float, str)) \
                and not isinstance(n.left.value, bool) and not isinstance(n.right.value, bool):
            try:
                v = _BINOPS[type(n.op)](n.left.value, n.right.value)
            except Exception:       # noqa: BLE001
                return n
            if isinstance(v, (int, float, str)) and (not isinstance(v, (int, float)) or abs(v) < 10**18):
                return ast.copy_location(ast.Constant(v), n)
        return n

    def visit_UnaryOp(self, n: ast.UnaryOp):
        self.generic_visit(n)
        if isinstance(n.op, ast.USub) and isinstance(n.operand, ast.Constant) and isinstance(n.operand.value, (int, float)) and not isinstance(n.operand.value, bool):
            return ast.copy_location(ast.Constant(-n.operand.value), n)
        return n

    def visit_JoinedStr(self, n: ast.JoinedStr):
        self.generic_visit(n)
        vals: list[ast.expr] = []
        for v in n.values:
            lit = None
            if isinstance(v, ast.Constant) and isinstance(v.value, str):
                lit = v.value
            elif isinstance(v, ast.FormattedValue) and v.conversion == -1 and v.format_spec is None and isinstance(v.value, ast.Constant) \
                    and isinstance(v.value.value, (int, str)) and not isinstance(v.value.value, bool):
                lit = str(v.value.value)
            if lit is not None and vals and isinstance(vals[-1], ast.Constant):
                vals[-1] = ast.Constant(vals[-1].value + lit)
            elif lit is not None:
                vals.append(ast.Constant(lit))
            else:
                vals.append(v)
        n.values = vals
        return n


def _subst_consts(node: ast.AST, env: dict[str, Any]) -> ast.AST:
    if not env:
        return node
    out = _FoldConsts().visit(_SubstConsts(env).visit(clone(node)))
    ast.fix_missing_locations(out)
    return out


def _bind_target(t: ast.AST, v: Any, env: dict[str, Any], where: ast.AST) -> None:
    if isinstance(t, ast.Name):
        env[t.id] = v
    elif isinstance(t, (ast.Tuple, ast.List)) and len(t.elts) == len(tuple(v)):
        for tt, vv in zip(t.elts, tuple(v)):
            _bind_target(tt, vv, env, where)
    else:
        raise NotConst(un(where))


def _weekday(name: str) -> int:
    day = pmod("day")
    for st in day.cls("WeekDay").body:
        if isinstance(st, ast.Assign) and isinstance(st.targets[0], ast.Name) and st.targets[0].id == name:
            return fold(st.value, day)
    raise NotConst("WeekDay." + name)


def fold_name(name: str, m: Mod, cls: str | None = None, _depth: int = 0) -> Any:
    if cls is not None:
        try:
            return fold(m.assign(name, cls), m, cls, _depth + 1)
        except AnchorMissing:
            pass
    try:
        return fold(m.assign(name), m, None, _depth + 1)
    except AnchorMissing:
        pass
    imp = m.imports().get(name)
    if imp and imp[0].startswith("pendulum") and imp[1]:
        target = pmod(imp[0][len("pendulum"):].lstrip(".") or "__init__")
        return fold_name(imp[1], target, None, _depth + 1)
    if name in ("str", "int", "float"):
        return {"str": str, "int": int, "float": float}[name]
    # a function of the module (or of the class) used as a table entry: kept like a lambda - its single returned expression when it has that form
    for holder in ([m.cls(cls)] if cls is not None and m.has_cls(cls) else []) + [m.tree]:
        for st in holder.body:
            if isinstance(st, ast.FunctionDef) and st.name == name:
                body = [x for x in st.body if not (isinstance(x, ast.Expr) and isinstance(x.value, ast.Constant))]
                expr = body[0].value if len(body) == 1 and isinstance(body[0], ast.Return) and body[0].value is not None else ast.Name(id=f"<function {name}>", ctx=ast.Load())
                lam = ast.Lambda(args=st.args, body=expr)
                ast.copy_location(lam, st)
                ast.fix_missing_locations(lam)
                return Lambda(lam)
    raise NotConst(name)


def const(modname: str, name: str, cls: str | None = None) -> Any:
    m = pmod(modname)
    try:
        return fold_name(name, m, cls)
    except NotConst as e:
        if cls is None:
            # a module-level value assembled by helper functions of the module (a pattern built from named fragments): evaluated
            # by the checker's interpreter; `re.compile(p, flags)` stands for the pattern text, as in the folder
            try:
                from .rules import minieval
                funcs = {st.name: st for st in m.top() if isinstance(st, ast.FunctionDef)}
                glob = {**minieval.module_consts(m), "re": minieval.Stub(compile=lambda p_, *a, **k: p_, VERBOSE=64, X=64, IGNORECASE=2, I=2, escape=__import__("re").escape)}
                minieval.module_tables(m, glob, funcs)
                if name in glob and isinstance(glob[name], (str, int, float, tuple, list, dict)):
                    return glob[name]
            except Exception:       # noqa: BLE001
                pass
        raise Unsupported(f"{modname}:{name} is not a foldable constant ({e})")


# ---------------------------------------------------------------------------
# class index / MRO over the package (stdlib bases are leaves)

CLASS_HOME = {
    "DateTime": "datetime", "Date": "date", "Time": "time", "Duration": "duration",
    "AbsoluteDuration": "duration", "Interval": "interval", "FormattableMixin": "mixins.default",
    "Timezone": "tz.timezone", "FixedTimezone": "tz.timezone", "PendulumTimezone": "tz.timezone",
}
# C3 linearisation written out for the few classes of interest (checked against
# the class statements by `check_bases`).
BASES = {
    "DateTime": ["datetime.datetime", "Date"],
    "Date": ["FormattableMixin", "date"],
    "Time": ["FormattableMixin", "time"],
    "Duration": ["timedelta"],
    "AbsoluteDuration": ["Duration"],
    "Interval": ["Duration", "Generic[_T]"],
    "FixedTimezone": ["_datetime.tzinfo", "PendulumTimezone"],
    "Timezone": ["zoneinfo.ZoneInfo", "PendulumTimezone"],
}
MRO = {
    "DateTime": ["DateTime", "Date", "FormattableMixin"],   # + datetime.datetime, date (native)
    "Date": ["Date", "FormattableMixin"],
    "Time": ["Time", "FormattableMixin"],
    "Duration": ["Duration"],
    "AbsoluteDuration": ["AbsoluteDuration", "Duration"],
    "Interval": ["Interval", "Duration"],
}


def check_bases() -> list[str]:
    """Returns the classes whose `class X(bases)` statement differs from BASES."""
    bad = []
    for c, want in BASES.items():
        node = pmod(CLASS_HOME[c]).cls(c)
        got = [un(b) for b in node.bases]
        if got != want:
            bad.append(f"{c}: {got} != {want}")
    return bad


def resolve_method(cls: str, name: str) -> tuple[str, ast.FunctionDef] | None:
    """Resolve `name` on pendulum class `cls` through the package part of the MRO.
    Returns (owner class, def) or None when only a native base defines it."""
    for c in MRO[cls]:
        m = pmod(CLASS_HOME[c])
        meths = m.methods(c)
        if name in meths:
            return c, meths[name]
        al = m.class_aliases(c)
        if name in al and al[al_name := name] in meths:  # noqa: F841
            return c, meths[al[name]]
    return None


def regex_tree(pattern: str, flags: int = 0):
    import re._parser as sre_parse  # type: ignore[import-not-found]
    return sre_parse.parse(pattern, flags)


_ = re
