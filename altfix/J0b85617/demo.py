"""previous(weekday) / start_of('week') around a calendar day that does not exist
(Pacific/Apia skipped 2011-12-30).  Expected values come from the standard library
(datetime + zoneinfo) only.  Exits 0 when everything is right, non-zero otherwise
(a hang is turned into a failure by an alarm)."""
import datetime as dt
import signal
import sys
from zoneinfo import ZoneInfo

import pendulum


def on_alarm(signum, frame):
    print("FAIL: previous()/start_of('week') did not return within 20 s")
    sys.exit(2)


signal.signal(signal.SIGALRM, on_alarm)
signal.alarm(20)

UTC = dt.timezone.utc
failures = []


def day_exists(day, zone):
    """True when at least one wall-clock hour of that calendar day exists in the zone."""
    for hour in range(24):
        naive = dt.datetime(day.year, day.month, day.day, hour)
        back = naive.replace(tzinfo=zone).astimezone(UTC).astimezone(zone)
        if back.replace(tzinfo=None) == naive:
            return True
    return False


def expected_previous(day, weekday, zone):
    cand = day - dt.timedelta(days=1)
    while cand.weekday() != weekday or not day_exists(cand, zone):
        cand -= dt.timedelta(days=1)
    return cand


def check(label, got, want):
    if got != want:
        failures.append(f"{label}: got {got}, want {want}")


# hand-computed headline cases -------------------------------------------------
apia = "Pacific/Apia"
d = pendulum.datetime(2011, 12, 31, 12, tz=apia)  # a Saturday; Friday the 30th is missing
check("previous(MONDAY)", d.previous(pendulum.MONDAY).to_datetime_string(), "2011-12-26 00:00:00")
check("start_of('week')", d.start_of("week").to_datetime_string(), "2011-12-26 00:00:00")
check("previous(THURSDAY)", d.previous(pendulum.THURSDAY).to_datetime_string(), "2011-12-29 00:00:00")
check(
    "previous(THURSDAY, keep_time)",
    d.previous(pendulum.THURSDAY, keep_time=True).to_datetime_string(),
    "2011-12-29 12:00:00",
)
# the Friday just before does not exist: nearest strictly earlier Friday is the 23rd
check("previous(FRIDAY)", d.previous(pendulum.FRIDAY).to_datetime_string(), "2011-12-23 00:00:00")
check(
    "previous(FRIDAY) from 2012-01-02",
    pendulum.datetime(2012, 1, 2, 8, tz=apia).previous(pendulum.FRIDAY).to_datetime_string(),
    "2011-12-23 00:00:00",
)
check("previous()", d.previous().to_datetime_string(), "2011-12-24 00:00:00")
check("offset before the jump", d.previous(pendulum.MONDAY).utcoffset(), dt.timedelta(hours=-10))

# sweep against the standard library -------------------------------------------
for zone_name in (apia, "Europe/Paris", "America/New_York", "UTC"):
    zone = ZoneInfo(zone_name)
    start = dt.date(2011, 12, 15)
    for i in range(40):
        day = start + dt.timedelta(days=i)
        if not day_exists(day, zone):
            continue
        p = pendulum.datetime(day.year, day.month, day.day, 12, tz=zone_name)
        for weekday in range(7):
            want = expected_previous(day, weekday, zone)
            got = p.previous(pendulum.WeekDay(weekday))
            check(f"{zone_name} {day} previous({weekday})", got.date(), want)
            check(f"{zone_name} {day} previous({weekday}) time", got.time(), dt.time(0))
            got = p.previous(pendulum.WeekDay(weekday), keep_time=True)
            check(f"{zone_name} {day} previous({weekday}, keep_time)", got.date(), want)
            check(f"{zone_name} {day} previous({weekday}, keep_time) time", got.time(), dt.time(12))
        sow = p.start_of("week")
        want = day if day.weekday() == 0 else expected_previous(day, 0, zone)
        check(f"{zone_name} {day} start_of('week')", (sow.date(), sow.time()), (want, dt.time(0)))

# next() is unaffected ----------------------------------------------------------
check(
    "next(FRIDAY) over the gap",
    pendulum.datetime(2011, 12, 29, 12, tz=apia).next(pendulum.FRIDAY).to_datetime_string(),
    "2012-01-06 00:00:00",
)

signal.alarm(0)
if failures:
    print(f"FAIL ({len(failures)})")
    for f in failures[:20]:
        print("  ", f)
    sys.exit(1)
print("OK")
