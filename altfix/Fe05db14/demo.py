"""precise_diff() between end points in different time zones must agree with
a reference computed with the standard library (shift both end points to UTC
with datetime arithmetic, then take the calendar difference by hand)."""
import sys
from datetime import datetime, timedelta, timezone

from pendulum.helpers import precise_diff


def tz(hours, minutes=0, seconds=0):
    return timezone(timedelta(hours=hours, minutes=minutes, seconds=seconds))


UTC = timezone.utc

# (d1, d2, expected (years, months, days, hours, minutes, seconds)) -- hand computed:
# both end points are converted to UTC first, then the calendar difference is taken.
CASES = [
    # 20:00-04:00 is 00:00 UTC the next day -> exactly 1 day, not "24 hours"
    (datetime(2021, 3, 10, 0, 0, tzinfo=UTC),
     datetime(2021, 3, 10, 20, 0, tzinfo=tz(-4)), (0, 0, 1, 0, 0, 0)),
    # Jan 31 20:00-04:00 is Feb 1 00:00 UTC -> exactly 1 month after Jan 1 00:00 UTC
    (datetime(2021, 1, 1, 0, 0, tzinfo=UTC),
     datetime(2021, 1, 31, 20, 0, tzinfo=tz(-4)), (0, 1, 0, 0, 0, 0)),
    # Dec 31 20:00-04:00 is Jan 1 00:00 UTC of the next year -> exactly 1 year
    (datetime(2021, 1, 1, 0, 0, tzinfo=UTC),
     datetime(2021, 12, 31, 20, 0, tzinfo=tz(-4)), (1, 0, 0, 0, 0, 0)),
    # minute landing exactly on 60: 10:30-00:30 is 11:00 UTC
    (datetime(2021, 3, 9, 10, 0, tzinfo=UTC),
     datetime(2021, 3, 10, 10, 30, tzinfo=tz(0, -30)), (0, 0, 1, 1, 0, 0)),
    # second landing exactly on 60: 10:00:30 at -00:00:30 is 10:01:00 UTC
    (datetime(2021, 3, 9, 10, 0, tzinfo=UTC),
     datetime(2021, 3, 10, 10, 0, 30, tzinfo=tz(0, 0, -30)), (0, 0, 1, 0, 1, 0)),
    # day pushed below 1: Mar 1 02:00+05:00 is Feb 28 21:00 UTC
    (datetime(2021, 1, 28, 21, 0, tzinfo=UTC),
     datetime(2021, 3, 1, 2, 0, tzinfo=tz(5)), (0, 1, 0, 0, 0, 0)),
    # leap year: Feb 28 22:00-03:00 is Feb 29 01:00 UTC
    (datetime(2020, 1, 29, 1, 0, tzinfo=UTC),
     datetime(2020, 2, 28, 22, 0, tzinfo=tz(-3)), (0, 1, 0, 0, 0, 0)),
]


def check(d1, d2, expected):
    # sanity of the hand computed value, with the standard library only
    u1, u2 = d1.astimezone(UTC), d2.astimezone(UTC)
    y, mo, d, h, mi, s = expected
    month_index = u1.year * 12 + u1.month - 1 + y * 12 + mo
    moved = u1.replace(year=month_index // 12, month=month_index % 12 + 1)
    assert moved + timedelta(days=d, hours=h, minutes=mi, seconds=s) == u2, (d1, d2)

    diff = precise_diff(d1, d2)
    got = (diff.years, diff.months, diff.days, diff.hours, diff.minutes, diff.seconds)
    back = precise_diff(d2, d1)
    got_back = (back.years, back.months, back.days, back.hours, back.minutes, back.seconds)
    ok = got == expected and got_back == tuple(-v for v in expected)
    if not ok:
        print(f"FAIL {d1.isoformat()} -> {d2.isoformat()}: got {got} / {got_back}, expected {expected}")
    return ok


results = [check(*case) for case in CASES]
if not all(results):
    sys.exit(1)
print("ok")
